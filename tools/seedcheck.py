#!/usr/bin/env python3
"""Verify one seeded change against the repository's tests, its own demonstration and our checks.

  tools/seedcheck.py <dir-with-patch.diff+demo.py> [--checks C07,C02 | --all] [--tier quick]

Works on a scratch copy of /repo's HEAD (git worktree under /tmp, removed afterwards); /repo itself
is never touched.  Prints one JSON line with the outcome.
"""

import argparse
import json
import os
import shutil
import subprocess
import sys
import tempfile

ROOT = os.path.dirname(os.path.dirname(os.path.abspath(__file__)))
PY = "/venv/bin/python"


def sh(cmd, cwd=None, env=None, timeout=1800):
    p = subprocess.run(cmd, cwd=cwd, env=env, capture_output=True, text=True, timeout=timeout)
    return p.returncode, p.stdout, p.stderr


def main() -> int:  # noqa: C901
    ap = argparse.ArgumentParser()
    ap.add_argument("seed")
    ap.add_argument("--checks", default="")
    ap.add_argument("--all", action="store_true")
    ap.add_argument("--tier", default="quick")
    ap.add_argument("--skip-tests", action="store_true")
    args = ap.parse_args()
    seed = os.path.abspath(args.seed)
    patch = os.path.join(seed, "patch.diff")
    demo = os.path.join(seed, "demo.py")
    scratch = tempfile.mkdtemp(prefix="hv-seed-")
    os.rmdir(scratch)
    out: dict = {"seed": seed}
    rc, _, err = sh(["git", "-C", "/repo", "worktree", "add", "-q", "--detach", scratch, "HEAD"])
    if rc:
        print(json.dumps({"error": err}))
        return 2
    try:
        env = dict(os.environ)
        env["PYTHONPATH"] = os.path.join(scratch, "src")
        env["PYTHONDONTWRITEBYTECODE"] = "1"
        # demonstration on the unchanged tree
        if os.path.exists(demo):
            rc, so, se = sh([PY, demo], cwd=scratch, env=env, timeout=120)
            out["demo_clean_rc"] = rc
        rc, so, se = sh(["git", "apply", patch], cwd=scratch)
        out["applies"] = rc == 0
        if rc:
            out["apply_error"] = se[-400:]
            print(json.dumps(out))
            return 1
        if not args.skip_tests:
            rc, so, se = sh(
                [PY, "-m", "pytest", "-q", "-p", "no:cacheprovider", "--timeout=120", "-x"],
                cwd=scratch,
                env=env,
                timeout=900,
            )
            tail = (so.strip().splitlines() or [""])[-1]
            out["tests"] = tail
            out["tests_pass"] = rc == 0 and "65 passed" in tail
        if os.path.exists(demo):
            rc, so, se = sh([PY, demo], cwd=scratch, env=env, timeout=120)
            out["demo_mutant_rc"] = rc
        checks = [c for c in args.checks.split(",") if c]
        if args.all:
            checks = [f"C{i:02d}" for i in range(1, 21)]
        env2 = dict(os.environ)
        env2["HV_REPO"] = scratch
        out["checks"] = {}
        for c in checks:
            rc, so, se = sh([PY, "-m", "hv.run", c, "--tier", args.tier], cwd=ROOT, env=env2, timeout=3600)
            sigs = [l.split("replay=")[1].rsplit("/", 1)[-1] for l in so.splitlines() if l.startswith("VIOLATION")]
            out["checks"][c] = {"rc": rc, "violations": sigs[:6], "harness_error": [l[:300] for l in so.splitlines() if l.startswith("HARNESS-ERROR")][:2]}
        print(json.dumps(out))
        return 0
    finally:
        sh(["git", "-C", "/repo", "worktree", "remove", "--force", scratch])
        shutil.rmtree(scratch, ignore_errors=True)


if __name__ == "__main__":
    sys.exit(main())
