#!/usr/bin/env python3
"""Regenerate /verif/MANIFEST.json from the table below (kept valid at all times)."""

import json
import os

ROOT = os.path.dirname(os.path.dirname(os.path.abspath(__file__)))
PY = "/venv/bin/python"

# id -> (technique, level text, level note, design ref)
CHECKS: dict[str, tuple[str, str, str, str]] = {}


def check(pid: str, technique: str, text: str, note: str, ref: str) -> None:
    CHECKS[pid] = (technique, text, note, ref)


check(
    "C17",
    "explicit-state search on the real AsyncQueue (hand-stepped virtual asyncio loop), list reference model: every operation history "
    "up to length L, plus breadth-first search over canonical states (object graph of queue, "
    "consumer task, loop queue + reference) run to a FIXPOINT for a backlog bounded by B",
    "Every operation sequence up to the stated length over the 11-operation alphabet (evidence.rule lists it) is executed "
    "against the real queue on a fresh hand-stepped loop and compared with a list reference; the fixpoint searches "
    "(evidence.coverage.fixpoint_searches) cover operation sequences of EVERY length in which at most B elements are "
    "outstanding, each new state also drained to the end; every state merge is re-validated differentially; "
    "warm-up cycles repeated 5-40 times followed by every continuation of <= 3-4 operations reach far beyond the BFS horizon.",
    "asyncio FIFO callback order; single consumer; backlog bounded by B in the fixpoint family (element values cycle with period 4).",
    "3/C17",
)

check(
    "C01",
    "exhaustive enumeration of the scope-program grammar (forests of scope/update blocks x "
    "supplies x probe positions) on the real context vs an environment-stack interpreter",
    "Every program of the stated grammar (all nestings up to N blocks, 5 block kinds, 17 supplies in the sub-families listed in evidence.rule, "
    "probes at every position) is executed on the real ctx and every lookup compared with an "
    "independent environment-stack interpreter; complete for the grammar, nothing sampled.",
    "state family {A, A2(A), R, G[int]}; trees deeper/wider than the bound are not covered.",
    "3/C01",
)
check(
    "C12",
    "explicit-state search over call / clock-advance histories on the real cache (sync, async, "
    "method) vs a reference LRU with time stamps: all histories up to length L, plus breadth-first search over canonical "
    "states (implementation object graph + reference) run to a FIXPOINT, plus warm-up cycles x exhaustive continuations",
    "All histories up to length L over ==-equal differently typed keys, value-equal receivers "
    "and clock advances, for every limit/expiration/variant; oracle evaluated after every step. The fixpoint searches "
    "(evidence.coverage.fixpoint_searches) cover histories of EVERY length over a lean alphabet (3 ==-equal keys or 2 receivers x 2 keys, "
    "clock steps 1 and 4): the search ends when no new canonical state appears, every merge is re-validated by comparing all "
    "one-step continuations. Deep probes repeat every cycle of <= 2 operations 9 / 20 (41) times and then run every continuation of <= 3 (4) operations.",
    "virtual monotonic clock; wrapped function instantaneous and never failing; time stamps older than expiration+1 are merged as 'past' in canonical states (validated differentially).",
    "3/C12",
)
check(
    "C13",
    "stateless DFS over schedules (prefix replay) of caller start/cancel, invocation completion "
    "and expiry on the real async cache, plus explicit-state breadth-first search over canonical states run to a FIXPOINT "
    "for at most K concurrently active callers",
    "Every interleaving of the environment actions (incl. two events in one loop iteration) for "
    "2-4 callers over 1-2 keys (5 callers over 3 keys in one sub-family; 4-9 (17) waiters on one invocation) is executed on the real code; single-flight, isolation of "
    "cancellation and delivery are checked against a reference model on each. The fixpoint searches "
    "(evidence.coverage.fixpoint_searches) cover start / complete / cancel / clock histories of EVERY length with at most K = 2, 3 (4) "
    "callers active and K + 1 invocations in flight, the oracle evaluated online, every merge validated differentially.",
    "asyncio FIFO callback order inside one loop iteration; callers started in index order; the fixpoint family bounds the number of active callers / in-flight invocations.",
    "3/C13",
)
check(
    "C14",
    "exhaustive fault-sequence enumeration (chooser-driven outcomes of the wrapped function) on "
    "the real retry wrapper vs a counter-loop reference",
    "All reachable outcome sequences for all configurations; number of calls, identity of the "
    "final value/exception, pauses and delay-function arguments compared with the reference.",
    "virtual sleep; the wrapped call takes no time.",
    "3/C14",
)
check(
    "C15",
    "exhaustive enumeration of arrival patterns on a P/2 grid x all orders of equal-deadline "
    "timers on the real throttle in exact virtual time, plus explicit-state breadth-first search over canonical states run to a FIXPOINT for at most K outstanding calls",
    "Every arrival pattern up to n calls on the grid with every tie order; window, order, "
    "no-needless-delay and outcome clauses evaluated from exact virtual start times. Long patterns of 8-16 calls "
    "(gap cycle + <= 2 free gaps, limits 1..4) are explored with a stated bound of 2 (3) tie-order deviations. The fixpoint searches "
    "(evidence.coverage.fixpoint_searches) cover arrival histories of EVERY length on the grid with at most K = 2-4 (6) calls outstanding.",
    "grid arrivals only (multiples of P/2); same-instant arrivals are symmetric; the long patterns are deviation-bounded (evidence.coverage.declared_deviation_bound).",
    "3/C15",
)
check(
    "C16",
    "exhaustive schedule exploration of timer orders and caller-cancellation instants on the "
    "real timeout wrapper (virtual time, micro-batching)",
    "Full product of function behaviours x caller-cancel instants x tie orders; termination, "
    "outcome, cancellation propagation and clean callbacks checked on each execution.",
    "virtual time; the function's reaction to cancellation is one of the characterised kinds.",
    "3/C16",
)

check(
    "C02",
    "stateless DFS over schedules and fault points (one cancellation at every quiescent point) "
    "of nested scope programs on the real context; differential oracle fingerprint-before == "
    "fingerprint-after (state probe, current metrics scope, owning task group)",
    "Every execution of every program of the stated family (endings x disposable failures x "
    "spawned-task failures x cancellation point x completion order) is run on the real code and "
    "the context seen after each block compared with the context seen before it.",
    "asyncio FIFO callback order; spawn-probe ownership inferred from who waits for/cancels the "
    "probe; depth and counts bounded as stated.",
    "3/C02",
)
check(
    "C04",
    "explicit-state search over operation histories (mutation attempts on instance / stored / "
    "argument containers, updated, copy, deepcopy) on real State instances + exhaustive "
    "equality pair matrix",
    "All histories up to length L for every instance of a 16-class catalogue, value-never-changes "
    "reference checked after every operation; all ordered pairs / triples for the equivalence.",
    "catalogue of classes instead of the whole annotation grammar; Any-typed attributes excluded.",
    "3/C04",
)
check(
    "C05",
    "exhaustive enumeration of an annotation-term grammar x conforming values x one-position "
    "breaks on the real State validation vs an independent 3-valued structural oracle",
    "Every term of the stated grammar is declared as a State attribute and constructed with "
    "every generated value as argument and as default; acceptance, rejection and faithful "
    "storage compared with the oracle; complete for the grammar and value generators.",
    "oracle written against the term AST (not haiway's resolver); unspecified cases only "
    "checked for absence of non-Exception crashes.",
    "3/C05",
)
check(
    "C06",
    "stateless DFS over schedules of task steps / failures / one cancellation on the real scope "
    "+ task group",
    "All interleavings for up to k spawned tasks (incl. grandchild, spawn via nested sync scope "
    "/ update) and all body outcomes; all-done-at-exit, termination and "
    "no-waiting-after-failure checked on each (for every block of nested chains of 4-8 scopes). 4-12 blocked tasks in one scope are "
    "explored with a stated bound of 2 (3) non-default scheduling choices.",
    "tasks do not swallow cancellation; asyncio FIFO callback order; the many-tasks family is deviation-bounded (evidence.coverage.declared_deviation_bound).",
    "3/C06",
)
check(
    "C07",
    "crash-point enumeration: one cancellation at every quiescent point of every schedule of the "
    "victim's scope program; exhaustive script enumeration for check_cancellation",
    "For each program every interleaving and every cancellation point is executed; victim must "
    "end cancelled with all its spawned tasks done; all scripts <= 4 ops for the check.",
    "harness re-raises CancelledError; disposables/tasks do not swallow cancellation.",
    "3/C07",
)
check(
    "C08",
    "stateless DFS over completion orders of suspended disposable enters/exits, failures and one "
    "cancellation on the real scope; call-log oracle",
    "Full product (multisets) of disposable behaviours up to k, all body outcomes, all "
    "completion orders and cancellation points; enter-once / exit-once / exit-details / "
    "rollback / cleanup-errors-surface evaluated from the doubles' call log.",
    "cleanup errors count as surfaced when reachable from the caller's exception (group member "
    "or context/cause chain).",
    "3/C08",
)
check(
    "C20",
    "exhaustive enumeration of container shapes x obtainers (call/copy/deepcopy/pickle 0-5) and "
    "of the predicate x look-alike matrix on the real Missing",
    "The whole grid is enumerated; identity of every MISSING leaf after each round trip and "
    "agreement of every predicate with identity are checked.",
    "pickling State instances is impossible today (unrelated) and counted as skipped.",
    "3/C20",
)

check(
    "C03",
    "stateless DFS over every interleaving of 2-3 tasks running scope scripts on the real "
    "context; per-task reference environment",
    "All well-nested scripts up to length L for each task, every start position and start "
    "method (ctx.spawn / create_task), every interleaving at the pauses between operations; "
    "each task's probes must equal its own reference whatever the others did.",
    "asyncio context inheritance for create_task; bounded script length and task count.",
    "3/C03",
)
check(
    "C09",
    "stateless DFS over every linearisation of scope enter/exit events for all scope trees up to "
    "N nodes (inline / spawned / create_task placement) on the real completion protocol",
    "Every tree, placement and linearisation within the bound is executed; exactly-once, "
    "after-subtree, is_completed/time stability and 'leaving never fails' are checked from the "
    "event log.",
    "a nested scope counts for an ancestor if created before the ancestor's callback fired.",
    "3/C09",
)
check(
    "C10",
    "stateless DFS over all interleavings of recording tasks over scope trees on the real "
    "metrics context vs scope-stack + left-fold reference",
    "Every placement of up to R records (types, merges incl. raising and non-commutative) and "
    "every interleaving; per-scope values and the root's merged view compared in completion "
    "callbacks.",
    "truthy metric classes; records through a completed scope are dropped.",
    "3/C10",
)
check(
    "C11",
    "exhaustive enumeration of generator shape x creation place x consumption place x "
    "consumption mode on the real ctx.stream with owned GC / finalisation points",
    "The whole grid is executed; items/outcome, creation-context inside the generator, consumer "
    "fingerprint stability, completion of the creating scope and a clean loop exception handler "
    "are checked on each.",
    "GC at fixed points; a never-started dropped stream is outside the statement for completion.",
    "3/C11",
)
check(
    "C18",
    "exhaustive grid enumeration with gated real worker threads; every order of worker release "
    "vs loop heartbeat (DFS, prefix replay)",
    "Signature x call form x receiver x outcome x executor x caller context for asynchronous / "
    "wrap_async / traced, plus metadata for all seven decorators; identity of result/exception, "
    "bound arguments, thread, caller-state visibility, no leak, trace records.",
    "threads are gated and joined (no unowned races); debug mode.",
    "3/C18",
)
check(
    "C19",
    "exhaustive enumeration of scope tree x logger / trace id / name x log-call grammar on the "
    "real context logging vs a tree interpreter over captured records",
    "Every node option combination up to N nodes, every position, level and message form; "
    "logger, level, tagging, trace-id inheritance, uniqueness and 'never lost / never raises' "
    "checked for every call.",
    "records captured on the root logger (propagation); logger identity = record.name.",
    "3/C19",
)

NOT_BUILT_REASON = (
    "check not built yet in this round (design in DESIGN.md section 3); not claimed until its "
    "harness exists and is silent on the unchanged tree"
)


def main() -> None:
    props = [json.loads(line) for line in open(os.path.join(ROOT, "properties.jsonl"))]
    checks = []
    na = []
    for p in props:
        pid = p["id"]
        if pid in CHECKS:
            tech, text, note, ref = CHECKS[pid]
            checks.append(
                {
                    "property_id": pid,
                    "quick_cmd": f"{PY} -m hv.run {pid} --tier quick",
                    "thorough_cmd": f"{PY} -m hv.run {pid} --tier thorough",
                    "evidence_file": f"/verif/evidence/{pid}.json",
                    "replay_cmd_template": f"{PY} -m hv.replay {{path}}",
                    "engine": "hv",
                    "level_claimed": {
                        "category": "model_checking",
                        "text": text,
                        "design_ref": f"DESIGN.md section {ref}",
                    },
                    "level_note": note,
                    "technique": tech,
                }
            )
        else:
            na.append({"property_id": pid, "reason": NOT_BUILT_REASON})
    manifest = {
        "version": 1,
        "setup_cmd": f"{PY} -m hv.selftest --fast",
        "hooks": {
            "guard": "HAIWAY_VERIF",
            "enable": "no source hooks are needed: checks import /repo/src directly "
            "(HV_REPO selects another tree); the guard variable guards nothing",
            "baseline_off_cmd": "cd /repo && /venv/bin/python -m pytest -ra -q -p no:cacheprovider "
            "--timeout=900 --continue-on-collection-errors",
            "source_commits": [],
            "add_only": True,
        },
        "engines": [
            {
                "name": "hv",
                "path": "/verif/hv",
                "serves_properties": sorted(CHECKS),
                "kind_free_text": "stateless DFS model checker over environment actions "
                "(schedules, faults, operation histories, input grammars) executing the real "
                "haiway code on a hand-stepped virtual-time asyncio loop, with reference models",
            }
        ],
        "checks": checks,
        "notes": "exit 2 = HARNESS-ERROR (broken check, not a verdict). VERIF_SEED rotates samples "
        "and shard order only, never coverage.",
        "not_applicable": na,
    }
    with open(os.path.join(ROOT, "MANIFEST.json"), "w") as fh:
        json.dump(manifest, fh, indent=1)
        fh.write("\n")


if __name__ == "__main__":
    main()
