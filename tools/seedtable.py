#!/usr/bin/env python3
"""Build seeded/<id>/meta.json from seedcheck.json + notes.md and the section-8 table of DESIGN.md."""

import json
import os
import re

ROOT = os.path.dirname(os.path.dirname(os.path.abspath(__file__)))
BEGIN, END = "<!-- SEED-TABLE-BEGIN -->", "<!-- SEED-TABLE-END -->"


def first_lines(path: str, n: int = 3) -> str:
    if not os.path.exists(path):
        return ""
    out = []
    for line in open(path):
        line = line.strip()
        if line and not line.startswith("#"):
            out.append(line)
        if len(out) >= n:
            break
    return " ".join(out)[:400]


def main() -> None:
    rows = []
    for name in sorted(os.listdir(os.path.join(ROOT, "seeded"))):
        d = os.path.join(ROOT, "seeded", name)
        sc = os.path.join(d, "seedcheck.json")
        if not os.path.isdir(d) or not os.path.exists(sc):
            continue
        try:
            res = json.loads(open(sc).read().strip().splitlines()[-1])
        except Exception:
            continue
        prop = name.split("-")[0]
        checks = res.get("checks", {})
        catching = sorted(c for c, v in checks.items() if v["rc"] == 1)
        errors = sorted(c for c, v in checks.items() if v["rc"] not in (0, 1))
        diff = open(os.path.join(d, "patch.diff")).read()
        files = sorted(set(re.findall(r"^\+\+\+ b/(\S+)", diff, re.M)))
        meta = {
            "seed": name,
            "breaks_property": prop,
            "files": files,
            "what_and_needs": first_lines(os.path.join(d, "notes.md"), 4),
            "origin": "independent sub-agent given only the property text and a scratch worktree",
            "ran": [
                "tools/seedcheck.py seeded/%s --all   (scratch worktree of /repo HEAD + git apply patch.diff)" % name,
                "pytest (65 tests) with the change applied",
                "demo.py on the unchanged tree and with the change applied",
                ("every check's quick tier with HV_REPO=<scratch>" if len(checks) >= 20 else "quick tier of " + ", ".join(sorted(checks)) + " with HV_REPO=<scratch> (tools/seedmatrix.py --owner-first: the owning check; the checks anchored in the touched files when it stays silent)"),
            ],
            "applies_to_head": res.get("applies"),
            "tests_pass_with_change": res.get("tests_pass"),
            "demo_exit_unchanged": res.get("demo_clean_rc"),
            "demo_exit_with_change": res.get("demo_mutant_rc"),
            "caught_by_owning_check": prop in catching,
            "caught_by": catching,
            "check_errors": errors,
            "violation_signatures": {c: v["violations"][:3] for c, v in checks.items() if v["rc"] == 1},
        }
        with open(os.path.join(d, "meta.json"), "w") as fh:
            json.dump(meta, fh, indent=1)
        valid = meta["tests_pass_with_change"] and meta["demo_exit_with_change"] == 1 and meta["demo_exit_unchanged"] == 0
        rows.append(
            "| %s | %s | %s | %s | %s |"
            % (
                name,
                ", ".join(f.replace("src/haiway/", "") for f in files),
                "yes" if valid else ("NO (patch no longer applies to HEAD after a later repair)" if res.get("applies") is False else "NO (neutralised by a later repair)" if meta["demo_exit_with_change"] == 0 else "no"),
                "**%s**" % prop if prop in catching else "—",
                ", ".join(c for c in catching if c != prop) or "—",
            )
        )
    table = "\n".join(
        [
            BEGIN,
            "| seed | files touched | valid (tests pass, demo flips) | owning check (quick) | also caught by |",
            "|---|---|---|---|---|",
            *rows,
            END,
        ]
    )
    p = os.path.join(ROOT, "DESIGN.md")
    s = open(p).read()
    if BEGIN in s:
        s = s[: s.index(BEGIN)] + table + s[s.index(END) + len(END) :]
    else:
        s = s.replace("SEED-TABLE-PLACEHOLDER", table)
    open(p, "w").write(s)
    print(len(rows), "rows")


if __name__ == "__main__":
    main()
