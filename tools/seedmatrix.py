#!/usr/bin/env python3
"""Run tools/seedcheck.py for every seed in /verif/seeded against its owning check and every
check whose anchored files are touched by the patch; writes seeded/<id>/seedcheck.json.

  tools/seedmatrix.py [--only C07-1,C07-2] [--all-checks]
"""

import json
import os
import re
import subprocess
import sys

ROOT = os.path.dirname(os.path.dirname(os.path.abspath(__file__)))


def main() -> None:
    only = None
    for a in sys.argv[1:]:
        if a.startswith("--only"):
            only = set(a.split("=", 1)[1].split(","))
    all_checks = "--all-checks" in sys.argv
    since = 0.0
    for a in sys.argv[1:]:
        if a.startswith("--since="):
            since = float(a.split("=", 1)[1])
    anchors: dict[str, set[str]] = {}
    for line in open(os.path.join(ROOT, "properties.jsonl")):
        p = json.loads(line)
        anchors[p["id"]] = set(p["anchors"]["files"])
    # files shared by everything (mimic) are related to the decorator checks
    extra = {"src/haiway/utils/mimic.py": {"C12", "C13", "C14", "C15", "C16", "C18"}}
    for name in sorted(os.listdir(os.path.join(ROOT, "seeded"))):
        d = os.path.join(ROOT, "seeded", name)
        if not os.path.isdir(d) or (only and name not in only):
            continue
        sc = os.path.join(d, "seedcheck.json")
        if since and os.path.exists(sc) and os.path.getmtime(sc) >= since:
            continue  # already done in this campaign
        prop = name.split("-")[0]
        files = set(re.findall(r"^\+\+\+ b/(\S+)", open(os.path.join(d, "patch.diff")).read(), re.M))
        related = {prop}
        for pid, fs in anchors.items():
            if fs & files:
                related.add(pid)
        for f in files:
            related |= extra.get(f, set())
        def run(checks, skip_tests=False):
            args = ["python3", os.path.join(ROOT, "tools", "seedcheck.py"), d]
            args += ["--all"] if checks is None else ["--checks", ",".join(sorted(checks))]
            if skip_tests:
                args.append("--skip-tests")
            out = subprocess.run(args, capture_output=True, text=True, cwd=ROOT)
            lines = [l for l in out.stdout.splitlines() if l.startswith("{")]
            return json.loads(lines[-1]) if lines else None

        if all_checks:
            res = run(None)
        elif "--owner-first" in sys.argv:
            # the owning check first; the sibling checks only when it does not report the change
            res = run({prop})
            if res and "checks" in res and res["checks"].get(prop, {}).get("rc") != 1 and related - {prop}:
                more = run(related - {prop}, skip_tests=True)
                if more and "checks" in more:
                    res["checks"].update(more["checks"])
        else:
            res = run(related)
        if res:
            with open(os.path.join(d, "seedcheck.json"), "w") as fh:
                fh.write(json.dumps(res) + "\n")
        print(name, "done", sorted(res.get("checks", {})) if res else "NO RESULT", flush=True)


if __name__ == "__main__":
    main()
