#!/usr/bin/env python3
"""Re-run the owning check (quick tier, final harnesses) on a systematic sample of the older seeds
(every k-th seed that its owning check reported when it was stored) -> tools/regression_sample.json"""
import json
import os
import subprocess
import sys

ROOT = os.path.dirname(os.path.dirname(os.path.abspath(__file__)))
k = int(sys.argv[1]) if len(sys.argv) > 1 else 12
offset = int(sys.argv[2]) if len(sys.argv) > 2 else 5
names = []
for name in sorted(os.listdir(os.path.join(ROOT, "seeded"))):
    meta = os.path.join(ROOT, "seeded", name, "meta.json")
    if not os.path.exists(meta):
        continue
    m = json.load(open(meta))
    if int(name.split("-")[1]) <= 18 and m.get("caught_by_owning_check") and m.get("applies_to_head"):
        names.append(name)
sample = names[offset::k]
out = {}
for name in sample:
    prop = name.split("-")[0]
    p = subprocess.run(["python3", os.path.join(ROOT, "tools", "seedcheck.py"), os.path.join(ROOT, "seeded", name), "--checks", prop, "--skip-tests"], capture_output=True, text=True, cwd=ROOT)
    lines = [l for l in p.stdout.splitlines() if l.startswith("{")]
    res = json.loads(lines[-1]) if lines else {}
    rc = res.get("checks", {}).get(prop, {}).get("rc")
    out[name] = {"rc": rc, "violations": res.get("checks", {}).get(prop, {}).get("violations", [])[:2]}
    print(name, rc, flush=True)
    json.dump({"every": k, "offset": offset, "population": len(names), "results": out}, open(os.path.join(ROOT, "tools", "regression_sample.json"), "w"), indent=1)
