#!/usr/bin/env python3
"""Does every repaired finding come back as a VIOLATION when its repair is taken out again?

For every `fixed:` line of KNOWN_FINDINGS.txt: scratch worktree of /repo HEAD, `git revert
--no-commit <sha>` (skipped when it conflicts with later repairs), the repository's tests (they
passed before the repair, they must pass without it), then the owning check's quick tier with
HV_REPO pointing at the scratch tree.  Writes tools/revertcheck.json; /repo is never touched.
"""

import json
import os
import re
import subprocess
import sys
import tempfile

ROOT = os.path.dirname(os.path.dirname(os.path.abspath(__file__)))
PY = "/venv/bin/python"


def sh(cmd, cwd=None, env=None, timeout=3600):
    p = subprocess.run(cmd, cwd=cwd, env=env, capture_output=True, text=True, timeout=timeout)
    return p.returncode, p.stdout, p.stderr


def main() -> None:
    only = set(sys.argv[1:])
    rows = []
    for line in open(os.path.join(ROOT, "KNOWN_FINDINGS.txt")):
        m = re.match(r"fixed: property=(C\d+) ([0-9a-f]{7,}) (.*)", line.strip())
        if not m:
            continue
        prop, sha, text = m.groups()
        if only and sha not in only and prop not in only:
            continue
        scratch = tempfile.mkdtemp(prefix="hv-revert-")
        os.rmdir(scratch)
        rc, _, err = sh(["git", "-C", "/repo", "worktree", "add", "-q", "--detach", scratch, "HEAD"])
        row = {"property": prop, "commit": sha, "finding": text[:120]}
        try:
            rc, _, err = sh(["git", "revert", "--no-commit", sha], cwd=scratch)
            if rc:
                row["revert"] = "conflicts with later repairs"
                rows.append(row)
                print(json.dumps(row), flush=True)
                continue
            row["revert"] = "ok"
            env = dict(os.environ, PYTHONPATH=os.path.join(scratch, "src"), PYTHONDONTWRITEBYTECODE="1")
            rc, so, _ = sh([PY, "-m", "pytest", "-q", "-p", "no:cacheprovider", "--timeout=60", "-x"], cwd=scratch, env=env, timeout=900)
            tail = (so.strip().splitlines() or [""])[-1]
            row["tests"] = tail[:60]
            env2 = dict(os.environ, HV_REPO=scratch)
            rc, so, _ = sh([PY, "-m", "hv.run", prop, "--tier", "quick"], cwd=ROOT, env=env2)
            row["check_rc"] = rc
            row["violations"] = [l.split("replay=")[1].rsplit("/", 1)[-1] for l in so.splitlines() if l.startswith("VIOLATION")][:4]
        finally:
            sh(["git", "-C", "/repo", "worktree", "remove", "--force", scratch])
        rows.append(row)
        print(json.dumps(row), flush=True)
    if not only:
        with open(os.path.join(ROOT, "tools", "revertcheck.json"), "w") as fh:
            json.dump(rows, fh, indent=1)


if __name__ == "__main__":
    main()
