#!/usr/bin/env python3
"""Mechanical mutation sweep (a second, agent-independent measure of what the checks notice).

For every single-token mutant of the given haiway source files (comparison / boolean / arithmetic
operator flips, constant flips, dropped statements, swapped deque ends ...):
  1. apply it to a scratch worktree of /repo HEAD; skip it if haiway no longer imports;
  2. run the repository's tests - a mutant the 65 tests already kill is of no interest;
  3. run the quick tier of the checks that own the file (HV_REPO=<scratch>).
Result per mutant: killed-by-tests / killed-by-check (which) / SURVIVED / harness-error.
Survivors need reading: many are equivalent (no behavioural change), the others are gaps.

  tools/mutsweep.py src/haiway/utils/queue.py [more files] [--limit=N] [--lines=85,109] [--out=file.jsonl]
"""

import json
import os
import re
import subprocess
import sys
import tempfile

ROOT = os.path.dirname(os.path.dirname(os.path.abspath(__file__)))
PY = "/venv/bin/python"

OWNERS = {
    "utils/queue.py": ["C17"],
    "helpers/timeouted.py": ["C16", "C18"],
    "helpers/throttling.py": ["C15", "C18"],
    "helpers/retries.py": ["C14", "C18"],
    "helpers/caching.py": ["C12", "C13", "C18"],
    "types/missing.py": ["C20"],
    "context/tasks.py": ["C06", "C07", "C02"],
    "context/disposables.py": ["C08", "C02"],
    "helpers/asynchrony.py": ["C18"],
    "helpers/tracing.py": ["C18"],
    "utils/mimic.py": ["C18", "C16"],
    "context/state.py": ["C01", "C03"],
    "context/metrics.py": ["C09", "C10", "C19"],
    "context/access.py": ["C02", "C06", "C07", "C11", "C08"],
    "state/validation.py": ["C05", "C04"],
    "state/attributes.py": ["C05"],
    "state/structure.py": ["C04", "C05", "C20"],
}

# (regex, replacement) - applied to one occurrence on one line at a time
OPS = [
    (r"(?<![<>=!])<=(?!=)", "<"),
    (r"(?<![<>=!-])<(?![<=])", "<="),
    (r"(?<![<>=!])>=(?!=)", ">"),
    (r"(?<![<>=!-])>(?![>=])", ">="),
    (r"==", "!="),
    (r"!=", "=="),
    (r"\bis not\b", "is"),
    (r"\bis\b(?! not)", "is not"),
    (r"\band\b", "or"),
    (r"\bor\b", "and"),
    (r"\bnot\s+", ""),
    (r"\bTrue\b", "False"),
    (r"\bFalse\b", "True"),
    (r"\+ 1\b", "- 1"),
    (r"- 1\b", "+ 1"),
    (r"\+=", "-="),
    (r"\b0\b", "1"),
    (r"\b1\b", "0"),
    (r"\bappendleft\b", "append"),
    (r"\bappend\b", "appendleft"),
    (r"\bpopleft\b", "pop"),
    (r"\bpopitem\(last=False\)", "popitem(last=True)"),
    (r"\bmove_to_end\(([^)]*)\)", r"move_to_end(\1, last=False)"),
    (r"\bin\b(?! range)", "not in"),
    (r"\breturn_exceptions=True", "return_exceptions=False"),
    (r"\braise\b$", "pass"),
    (r"\bcontinue\b", "break"),
    (r"\bBaseException\b", "Exception"),
    (r"\bany\(", "all("),
    (r"\ball\(", "any("),
]


def sh(cmd, cwd=None, env=None, timeout=1800):
    try:
        p = subprocess.run(cmd, cwd=cwd, env=env, capture_output=True, text=True, timeout=timeout)
        return p.returncode, p.stdout, p.stderr
    except subprocess.TimeoutExpired:
        return 124, "", "timeout"


def mutants(path: str):
    lines = open(path).read().split("\n")
    in_doc = False
    for ln, line in enumerate(lines):
        stripped = line.strip()
        if stripped.count('"""') == 1:
            in_doc = not in_doc
            continue
        if in_doc or not stripped or stripped.startswith("#") or stripped.startswith(("import ", "from ", "@", '"""', "__all__", '"')):
            continue
        code = line.split("  #")[0]
        if re.match(r"^\s*(def |class |async def |\)|\]|\}|else:|try:|finally:)", code) and not re.search(r"\bif\b", code):
            continue
        for rx, rep in OPS:
            for m in re.finditer(rx, code):
                # skip matches inside string literals (cheap test: odd number of quotes before)
                before = code[: m.start()]
                if before.count('"') % 2 or before.count("'") % 2:
                    continue
                new = code[: m.start()] + m.expand(rep) if "\\1" in rep else code[: m.start()] + rep
                new = new + code[m.end():] + line[len(code):]
                if new != line:
                    yield ln, line, new, f"{rx} -> {rep}"
        # statement deletion (simple statements only)
        if re.match(r"^\s+(self\.|[a-z_]+\.|[a-z_]+\(|await |del |[a-z_]+ (=|\+=) )", code) and not code.rstrip().endswith((",", "(", "[", "{", ":")):
            indent = re.match(r"^\s*", line).group(0)
            yield ln, line, indent + "pass", "delete statement"


def main() -> None:  # noqa: C901
    args = [a for a in sys.argv[1:] if not a.startswith("--")]
    limit = None
    only_lines = None
    out_path = os.path.join(ROOT, "tools", "mutsweep.jsonl")
    for a in sys.argv[1:]:
        if a.startswith("--limit="):
            limit = int(a.split("=", 1)[1])
        if a.startswith("--lines="):
            only_lines = {int(x) for x in a.split("=", 1)[1].split(",")}
        if a.startswith("--out="):
            out_path = a.split("=", 1)[1]
    scratch = tempfile.mkdtemp(prefix="hv-mut-")
    os.rmdir(scratch)
    rc, _, err = sh(["git", "-C", "/repo", "worktree", "add", "-q", "--detach", scratch, "HEAD"])
    assert rc == 0, err
    env = dict(os.environ, PYTHONPATH=os.path.join(scratch, "src"), PYTHONDONTWRITEBYTECODE="1")
    env2 = dict(os.environ, HV_REPO=scratch)
    n = 0
    try:
        with open(out_path, "a") as out:
            for rel in args:
                key = rel.split("src/haiway/")[-1]
                owners = OWNERS.get(key)
                if not owners:
                    print("no owner for", rel)
                    continue
                path = os.path.join(scratch, rel)
                original = open(path).read()
                seen = set()
                for ln, old, new, op in mutants(path):
                    if (ln, new) in seen or (only_lines is not None and ln + 1 not in only_lines):
                        continue
                    seen.add((ln, new))
                    if limit is not None and n >= limit:
                        break
                    n += 1
                    lines = original.split("\n")
                    lines[ln] = new
                    open(path, "w").write("\n".join(lines))
                    row = {"file": key, "line": ln + 1, "old": old.strip()[:120], "new": new.strip()[:120], "op": op}
                    rc, _, _ = sh([PY, "-c", "import haiway"], env=env, timeout=60)
                    if rc:
                        row["verdict"] = "does-not-import"
                    else:
                        rc, so, _ = sh([PY, "-m", "pytest", "-q", "-p", "no:cacheprovider", "--timeout=30", "-x"], cwd=scratch, env=env, timeout=600)
                        if rc != 0:
                            row["verdict"] = "killed-by-tests"
                        else:
                            row["verdict"] = "SURVIVED"
                            for c in owners:
                                rc, so, _ = sh([PY, "-m", "hv.run", c, "--tier", "quick"], cwd=ROOT, env=env2, timeout=1500)
                                if rc == 1:
                                    row["verdict"] = f"killed-by-check:{c}"
                                    sig = [l.split("replay=")[1].rsplit("/", 1)[-1] for l in so.splitlines() if l.startswith("VIOLATION")]
                                    row["signature"] = sig[:1]
                                    break
                                if rc not in (0, 1):
                                    row["verdict"] = f"harness-error:{c}:{rc}"
                    out.write(json.dumps(row) + "\n")
                    out.flush()
                    print(json.dumps(row), flush=True)
                open(path, "w").write(original)
    finally:
        sh(["git", "-C", "/repo", "worktree", "remove", "--force", scratch])


if __name__ == "__main__":
    main()
