#!/usr/bin/env python3
"""Insert the measured coverage of the last runs (evidence/*.json [+ thorough numbers kept in
tools/thorough.json]) into DESIGN.md between the COVERAGE markers."""
import json, os, glob
ROOT = os.path.dirname(os.path.dirname(os.path.abspath(__file__)))
B, E = "<!-- COVERAGE-BEGIN -->", "<!-- COVERAGE-END -->"
th = {}
tp = os.path.join(ROOT, "tools", "thorough.json")
if os.path.exists(tp):
    th = json.load(open(tp))
rows = ["| check | quick: programs / executions / states / wall | thorough: programs / executions / wall |", "|---|---|---|"]
for f in sorted(glob.glob(os.path.join(ROOT, "evidence", "C*.json"))):
    e = json.load(open(f)); c = e["coverage"]; pid = e["property_id"]
    q = f"{c['programs']:,} / {c['evaluations']:,} / {c['states']:,} / {e['wall_s']:.0f} s"
    if e["tier"] != "quick":
        q = "(last run was thorough)"
    t = th.get(pid)
    ts = f"{t['programs']:,} / {t['executions']:,} / {t['wall']:.0f} s" if t else "—"
    rows.append(f"| {pid} | {q} | {ts} |")
table = "\n".join([B, *rows, E])
p = os.path.join(ROOT, "DESIGN.md")
s = open(p).read()
if B in s:
    s = s[: s.index(B)] + table + s[s.index(E) + len(E):]
else:
    s = s.replace("## 4. Defects found on the given tree and repaired", "### Measured coverage (this sandbox, 16 cores; numbers in the paragraphs above are from earlier versions of the harnesses)\n\n" + table + "\n\n---------------------------------------------------------------------------------------------------\n\n## 4. Defects found on the given tree and repaired", 1)
open(p, "w").write(s)
print("ok")
