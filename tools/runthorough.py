#!/usr/bin/env python3
"""Run the thorough tier of the given checks one after the other and record the measured numbers
in tools/thorough.json (the quick evidence files are put back afterwards).

  tools/runthorough.py [C02 C04 ...]      (default: all)
"""
import json
import os
import re
import shutil
import subprocess
import sys

ROOT = os.path.dirname(os.path.dirname(os.path.abspath(__file__)))
ids = [a for a in sys.argv[1:] if a.startswith("C")] or [f"C{i:02d}" for i in range(1, 21)]
tp = os.path.join(ROOT, "tools", "thorough.json")
th = json.load(open(tp)) if os.path.exists(tp) else {}
for pid in ids:
    ev = os.path.join(ROOT, "evidence", f"{pid}.json")
    keep = ev + ".quick"
    if os.path.exists(ev):
        shutil.copy(ev, keep)
    p = subprocess.run(["/venv/bin/python", "-m", "hv.run", pid, "--tier", "thorough"], cwd=ROOT, capture_output=True, text=True)
    line = (p.stdout.strip().splitlines() or [""])[-1]
    print(pid, "rc", p.returncode, line, flush=True)
    m = re.search(r"programs=(\d+) executions=(\d+) states=(\d+) .*exhaustive=(\w+) capped=(\d+) violations=(\d+) known=\d+ wall=([\d.]+)s", line)
    if m and p.returncode == 0:
        th[pid] = {"programs": int(m[1]), "executions": int(m[2]), "states": int(m[3]), "exhaustive": m[4] == "True", "capped": int(m[5]), "violations": int(m[6]), "wall": float(m[7])}
        try:
            e = json.load(open(ev))
            fx = e["coverage"].get("fixpoint_searches")
            if fx and fx.get("programs_run_to_fixpoint"):
                th[pid]["fixpoint"] = {k: fx[k] for k in ("programs_run_to_fixpoint", "canonical_states", "transitions", "merges_validated_differentially", "longest_shortest_history")}
        except Exception:  # noqa: BLE001
            pass
        json.dump(th, open(tp, "w"), indent=1, sort_keys=True)
    else:
        print(p.stdout[-2000:], p.stderr[-1000:], flush=True)
    if os.path.exists(keep):
        shutil.move(keep, ev)
