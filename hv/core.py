"""Stateless DFS explorer over the choice tree with prefix replay (CHESS style)."""

import gc
import hashlib
import json
import os
import re
import signal
from dataclasses import dataclass, field
from typing import Any

from hv.world import Chooser, HarnessError, ReplayDivergence


@dataclass
class Result:
    outcome: str  # coarse summary used for the distinct-outcome vacuity guard
    nontrivial: bool  # per the harness' stated rule
    violations: list[dict] = field(default_factory=list)
    obs: Any = None  # JSON-able observation log (determinism digest, replay print-out)
    steps: int = 0  # library operations executed with the oracle evaluated after each of them
    capped: bool = False  # an explicit-state search inside this execution hit its state cap
    xstates: int = 0  # canonical states of an explicit-state (fixpoint) search inside this execution
    xinfo: Any = None  # its counters (merges validated ...)


_HEX32 = re.compile(r"[0-9a-f]{32}|0x[0-9a-f]{6,16}")


def scrub(x: Any) -> Any:
    """uuid4 hex ids (trace ids, scope identifiers) are not owned by the harness: never let them
    into a violation record (replays must reproduce bit-identically)."""
    if isinstance(x, str):
        return _HEX32.sub("<id>", x)
    if isinstance(x, (list, tuple)):
        return [scrub(e) for e in x]
    if isinstance(x, dict):
        return {scrub(k) if isinstance(k, str) else k: scrub(v) for k, v in x.items()}
    if x is None or isinstance(x, (bool, int, float)):
        return x
    return _HEX32.sub("<id>", repr(x))  # arbitrary objects: their repr without addresses


def viol(clause: str, witness: str, expected: Any, observed: Any, **extra: Any) -> dict:
    expected, observed, extra = scrub(expected), scrub(observed), scrub(extra)
    """A violation record.  signature = clause + witness class (used for dedup and for matching
    KNOWN_FINDINGS.txt)."""
    d = {
        "clause": clause,
        "signature": f"{clause}/{witness}" if witness else clause,
        "expected": expected,
        "observed": observed,
    }
    d.update(extra)
    return d


def digest(x: Any) -> str:
    # (object addresses / uuid hex ids inside reprs are not owned by the harness)
    text = _HEX32.sub("<id>", json.dumps(x, sort_keys=True, default=repr))
    return hashlib.sha1(text.encode(), usedforsecurity=False).hexdigest()[:16]


EXEC_DEADLINE_S = 20


class ExecutionTimeout(KeyboardInterrupt):
    """raised by the wall-clock guard inside whatever is running.  A KeyboardInterrupt subclass:
    asyncio tasks re-raise it instead of storing it; the timer keeps firing every 2 s until the
    execution has unwound (library / harness code may catch BaseException and go on looping)."""


class _deadline:
    """wall-clock guard around one execution (real time: the virtual clock does not apply)"""

    def __init__(self, seconds: int) -> None:
        self.seconds = seconds

    def _fire(self, signum, frame):
        raise ExecutionTimeout()

    def __enter__(self):
        self.old = signal.signal(signal.SIGALRM, self._fire)
        self.remaining = signal.alarm(0)
        signal.setitimer(signal.ITIMER_REAL, self.seconds, 2.0)
        return self

    def __exit__(self, *a):
        signal.setitimer(signal.ITIMER_REAL, 0)
        signal.signal(signal.SIGALRM, self.old)
        if self.remaining:
            signal.alarm(self.remaining)
        return False


def task_failure(task) -> str | None:
    """None when the task finished normally, else a short description ('pending', 'cancelled',
    repr of the exception).  `Task.exception()` itself raises on a cancelled task."""
    if not task.done():
        return "pending"
    if task.cancelled():
        return "cancelled although nobody cancelled it"
    exc = task.exception()
    return None if exc is None else scrub(repr(exc))[:200]


PROGRAMMING_ERRORS = (IndexError, KeyError, AttributeError, TypeError, NameError, ZeroDivisionError, RecursionError)


def raised_in_library(exc: BaseException | None, _depth: int = 0) -> "str | None":
    """`Type@file:function` when `exc` (or a member of the group it is) is a programming-error
    class (IndexError, TypeError ...) whose innermost traceback frame is a line of the checked
    library: the library itself tripped, the exception is not one a caller's code raised and the
    library passed on (a re-raise keeps the innermost frame of the original raise)."""
    from hv import boot

    if exc is None or _depth > 4:
        return None
    if isinstance(exc, BaseExceptionGroup):
        for sub in exc.exceptions:
            hit = raised_in_library(sub, _depth + 1)
            if hit:
                return hit
        return None
    if not isinstance(exc, PROGRAMMING_ERRORS):
        return None
    tb, last = exc.__traceback__, None
    while tb is not None:
        last, tb = tb, tb.tb_next
    if last is None:
        return None
    fn = os.path.realpath(last.tb_frame.f_code.co_filename)
    if not fn.startswith(boot.SRC + os.sep):
        return None
    return f"{type(exc).__name__}@{os.path.relpath(fn, boot.SRC)}:{last.tb_frame.f_code.co_name}"


def library_exception_result(exc: BaseException) -> "Result":
    """An exception that escaped harness.execute.  If it was raised by a frame of the checked
    library (innermost Python frame under HV_REPO/src) the harness did not anticipate it: the
    execution is reported as a violation (clause `unexpected-exception`) instead of a harness
    crash.  Anything raised by harness code itself stays a harness error (re-raised)."""
    from hv import boot

    if isinstance(exc, (HarnessError, ReplayDivergence)):
        raise exc
    tb = exc.__traceback__
    last = None
    while tb is not None:
        last = tb
        tb = tb.tb_next
    fn = os.path.realpath(last.tb_frame.f_code.co_filename) if last is not None else ""
    if isinstance(exc, MemoryError) and not fn.startswith(boot.SRC + os.sep):
        # memory exhausted (the worker runs under an address-space cap): attribute it to the
        # innermost library frame on the stack, wherever the allocation finally failed
        tb = exc.__traceback__
        lib = None
        while tb is not None:
            if os.path.realpath(tb.tb_frame.f_code.co_filename).startswith(boot.SRC + os.sep):
                lib = tb
            tb = tb.tb_next
        if lib is not None:
            last, fn = lib, os.path.realpath(lib.tb_frame.f_code.co_filename)
    if not fn.startswith(boot.SRC + os.sep):
        raise exc
    where = f"{os.path.relpath(fn, boot.SRC)}:{last.tb_frame.f_code.co_name}"
    return Result(
        "library-raised",
        True,
        [
            viol(
                "unexpected-exception",
                f"{type(exc).__name__}@{where}",
                "the operation completes, or fails in a way the property allows",
                f"{type(exc).__name__}: {scrub(str(exc)[:300])[:160]} raised in {where}",
            )
        ],
        {"aborted": f"{type(exc).__name__}@{where}"},
    )


class Stats:
    def __init__(self) -> None:
        self.programs = 0
        self.executions = 0
        self.states = 0
        self.transitions = 0
        self.nontrivial = 0
        self.max_depth = 0
        self.max_deviations = 0
        self.outcomes: dict[str, int] = {}
        self.capped_programs = 0
        self.bounded_programs = 0  # programs explored with a deviation bound (not full)
        self.fix_programs = 0  # explicit-state searches run to a fixpoint
        self.fix_states = 0
        self.fix_transitions = 0
        self.fix_merges_validated = 0
        self.fix_max_depth = 0
        self.rechecked = 0
        self.violations: dict[str, dict] = {}  # signature -> best witness
        self.violation_count = 0
        self.samples: list[dict] = []

    def to_json(self) -> dict:
        return {
            "programs": self.programs,
            "executions": self.executions,
            "states": self.states,
            "transitions": self.transitions,
            "nontrivial": self.nontrivial,
            "max_depth": self.max_depth,
            "max_deviations": self.max_deviations,
            "outcomes": self.outcomes,
            "capped_programs": self.capped_programs,
            "bounded_programs": self.bounded_programs,
            "fix_programs": self.fix_programs,
            "fix_states": self.fix_states,
            "fix_transitions": self.fix_transitions,
            "fix_merges_validated": self.fix_merges_validated,
            "fix_max_depth": self.fix_max_depth,
            "rechecked": self.rechecked,
            "violations": self.violations,
            "violation_count": self.violation_count,
            "samples": self.samples,
        }


def _rank(w: dict) -> tuple:
    return (w["deviations"], len(w["choices"]), w["program_index"])


def explore(  # noqa: PLR0913, PLR0912, C901
    harness: Any,
    program: Any,
    program_index: int,
    stats: Stats,
    *,
    bound: int | None = None,
    cap: int | None = None,
    split_depth: int = 0,
    shard: int = 0,
    nshards: int = 1,
    recheck_every: int = 97,
    sample_every: int = 0,
) -> None:
    """Explore every execution of `program` (all choice lists), optionally with at most `bound`
    non-default choices.  With split_depth>0 the subtrees below depth `split_depth` are divided
    between shards by hash of their prefix; the top of the tree is walked by every shard but
    counted by the owner only."""
    stack: list[list[int]] = [[]]
    runs = 0
    counted_program = False
    while stack:
        prefix = stack.pop()
        ch = Chooser(prefix)
        try:
            with _deadline(program.get("deadline_s", EXEC_DEADLINE_S) if isinstance(program, dict) else EXEC_DEADLINE_S):
                res = harness.execute(program, ch)
        except ExecutionTimeout:
            # a single execution normally takes milliseconds: the library (or the explored
            # choice tree) does not terminate.  Reported as a violation with the choices made
            # so far; the rest of this program's tree is abandoned.
            stats.executions += 1
            stats.violation_count += 1
            stats.capped_programs += 1
            stats.timeouts = getattr(stats, "timeouts", 0) + 1
            w = {
                "program": program,
                "program_index": program_index,
                "choices": list(ch.choices),
                "deviations": ch.deviations,
                **viol(
                    "termination",
                    "execution-does-not-terminate",
                    f"one execution finishes within {EXEC_DEADLINE_S}s of wall-clock time",
                    f"still running after {len(ch.choices)} choice points",
                ),
            }
            best = stats.violations.get(w["signature"])
            if best is None or _rank(w) < _rank(best):
                stats.violations[w["signature"]] = w
            break
        except Exception as exc:  # noqa: BLE001
            res = library_exception_result(exc)
        runs += 1
        if runs % 256 == 0:
            gc.collect()  # fixed collection points (the worker disables automatic GC)
        choices = ch.choices
        if len(choices) < len(prefix):
            if res.violations:
                # the execution ended before the replayed prefix was used up BECAUSE it ran into a
                # violation its first run did not show: the library carries state from one
                # execution to the next (every execution builds its objects afresh).  The
                # violation is real for this execution; it is reported with the choices made (the
                # runner replays it in a fresh process, repeatedly if need be); this branch is not
                # expanded and the program counts as capped, never as exhaustive.
                stats.executions += 1
                stats.capped_programs += 1
                for v in res.violations:
                    stats.violation_count += 1
                    w = {
                        "program": program,
                        "program_index": program_index,
                        "choices": list(choices),
                        "deviations": ch.deviations,
                        **v,
                    }
                    best = stats.violations.get(v["signature"])
                    if best is None or _rank(w) < _rank(best):
                        stats.violations[v["signature"]] = w
                continue  # this branch is not expanded; the other prefixes still are
            raise ReplayDivergence(
                f"execution ended after {len(choices)} choices, prefix had {len(prefix)}"
            )
        mine = True
        if split_depth > 0 and nshards > 1:
            key = tuple(choices[:split_depth])
            mine = (hash((program_index, key)) % nshards) == shard
        if mine:
            if not counted_program:
                counted_program = True
            stats.executions += 1
            p = len(prefix)
            stats.states += len(choices) - p + 1 + res.steps
            stats.transitions += len(choices) - p + (1 if p else 0) + res.steps
            if res.nontrivial:
                stats.nontrivial += 1
            if res.capped:
                stats.capped_programs += 1
            if res.xstates:
                stats.fix_programs += 0 if res.capped else 1
                stats.fix_states += res.xstates
                stats.fix_transitions += res.steps
                if isinstance(res.xinfo, dict):
                    stats.fix_merges_validated += res.xinfo.get("merges_validated", 0)
                    stats.fix_max_depth = max(stats.fix_max_depth, res.xinfo.get("depth", 0))
            stats.max_depth = max(stats.max_depth, len(choices))
            dev = ch.deviations
            stats.max_deviations = max(stats.max_deviations, dev)
            stats.outcomes[res.outcome] = stats.outcomes.get(res.outcome, 0) + 1
            for v in res.violations:
                stats.violation_count += 1
                w = {
                    "program": program,
                    "program_index": program_index,
                    "choices": list(choices),
                    "deviations": dev,
                    **v,
                }
                best = stats.violations.get(v["signature"])
                if best is None or _rank(w) < _rank(best):
                    stats.violations[v["signature"]] = w
            if recheck_every and stats.executions % recheck_every == 0:
                ch2 = Chooser(choices)
                try:
                    res2 = harness.execute(program, ch2)
                except Exception as exc:  # noqa: BLE001
                    res2 = library_exception_result(exc)
                stats.rechecked += 1
                if (
                    ch2.choices != choices
                    or digest([res.outcome, res.obs, res.violations])
                    != digest([res2.outcome, res2.obs, res2.violations])
                ):
                    raise HarnessError(
                        "nondeterministic replay: program=%r choices=%r\n first=%r\nsecond=%r"
                        % (program, choices, (res.outcome, res.obs), (res2.outcome, res2.obs))
                    )
            if sample_every and (stats.executions % sample_every == 1) and len(stats.samples) < 6:
                stats.samples.append(
                    {
                        "program": program,
                        "choices": list(choices),
                        "labels": _compress(ch.labels),
                        "outcome": res.outcome,
                        "observation": res.obs,
                    }
                )
        if cap is not None and runs >= cap and stack is not None:
            # safety net: report, never call it exhaustive
            pending = bool(stack) or len(choices) > len(prefix)
            if pending:
                stats.capped_programs += 1
                break
        # push alternatives (deepest first so that DFS order = lexicographic)
        dev_prefix = sum(1 for c in choices[: len(prefix)] if c)
        devs = dev_prefix
        alts: list[list[int]] = []
        for i in range(len(prefix), len(choices)):
            # choices[i] == 0 here (default continuation)
            if (i >= split_depth and not mine) and split_depth > 0 and nshards > 1:
                break
            if bound is None or devs + 1 <= bound:
                for alt in range(1, ch.arities[i]):
                    alts.append(choices[:i] + [alt])
        stack.extend(reversed(alts))
    if split_depth == 0 or nshards == 1 or program_index % nshards == shard:
        stats.programs += 1
        if bound is not None:
            stats.bounded_programs += 1


def _compress(labels: list[str]) -> str:
    return ",".join(labels[:40])
