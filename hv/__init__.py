"""hv - bounded exhaustive exploration (model checking) of the haiway implementation.

Import order matters: `hv.boot` must be imported before `haiway` (it installs the virtual clock
and binds the checked source tree).  Harness modules import `hv.boot` first.
"""
