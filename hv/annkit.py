"""Annotation terms, value generators and the independent conformance oracle for C05 / C04.

A *term* is a nested list: [kind, *subterms].  Leaves have no subterms.  Nothing in here looks at
haiway's AttributeAnnotation: `conforms` and `faithful` are written against the term only.
"""

import collections.abc as cabc
import datetime as dt
import enum
import pathlib
import typing
import uuid
from types import MappingProxyType

from hv import boot  # noqa: F401

from haiway import MISSING, Missing, State  # noqa: E402

Y, N, U = "yes", "no", "unspecified"
VALUE_FAILURES: list[tuple[str, str]] = []


# ---------------------------------------------------------------------------------------------
# leaf vocabulary


class Color(enum.Enum):
    RED = 1
    BLUE = 2


@typing.runtime_checkable
class Runner(typing.Protocol):
    def run(self) -> int: ...


class HasRun:
    def run(self) -> int:
        return 1


class Foreign:
    """unambiguously foreign to every leaf except Any"""

    def __repr__(self) -> str:
        return "Foreign()"


class Inner(State):
    x: int
    name: str = "n"


class OtherState(State):
    x: int


class Node(State):
    value: int
    next: "Node | None" = None


class Box[T](State):
    item: T


class GI[T](State):
    v: T | None = None


class AlwaysEq:
    """equals everything (unittest.mock.ANY style) - still an ordinary value for `Any`"""

    def __eq__(self, other) -> bool:
        return True

    def __ne__(self, other) -> bool:
        return False

    def __hash__(self) -> int:
        return 7

    def __repr__(self) -> str:
        return "AlwaysEq()"


ALWAYS_EQ = AlwaysEq()

# specialisations whose *display names* collide with the ones the grammar produces
# (Box[Sequence[str]] vs Box[Sequence[int]] both read "Box[Sequence]"): created first and kept
# alive, so a specialisation cache that confuses them hands out the wrong class
_COLLIDERS = [
    Box[cabc.Sequence[bytes]],
    Box[cabc.Mapping[str, bytes]],
    Box[cabc.Set[bytes]],
    Box[typing.Optional[bytes]],  # noqa: UP007
    Box[tuple[bytes, ...]],
    Box[tuple[bytes, bytes]],
    Box[frozenset[bytes]],
    Box[typing.Literal["other"]],
]

_T = typing.TypeVar("_T")
QSeq = typing.TypeAliasType("QSeq", cabc.Sequence[_T], type_params=(_T,))
# the same alias with a parameter *named like* the type variable generic classes usually declare
_TT = typing.TypeVar("T")  # noqa: PLC0132
TSeq = typing.TypeAliasType("TSeq", cabc.Sequence[_TT], type_params=(_TT,))

FOREIGN = Foreign()
_UUID = uuid.UUID(int=7)
_DT = dt.datetime(2024, 1, 2, 3, 4, 5)
_DATE = dt.date(2024, 1, 2)
_TD = dt.timedelta(seconds=3)
_PATH = pathlib.Path("/tmp/x")


def _fn(a):  # a callable value
    return a


_RUN = HasRun()
_INNER = Inner(x=1)
_INNER2 = Inner(x=2, name="m")
_OTHER = OtherState(x=1)
_NODE1 = Node(value=1)
_NODE2 = Node(value=1, next=Node(value=2))
_GI1 = GI[int](v=1)
_GS1 = GI[str](v="s")

# name -> (annotation, conforming values, hashable?)
LEAVES: dict[str, tuple] = {
    "None": (None, [None], True),
    "bool": (bool, [True, False], True),
    "int": (int, [1, -3], True),
    "float": (float, [1.5], True),
    "str": (str, ["a", ""], True),
    "bytes": (bytes, [b"b"], True),
    "UUID": (uuid.UUID, [_UUID], True),
    "datetime": (dt.datetime, [_DT], True),
    "date": (dt.date, [_DATE], True),
    "timedelta": (dt.timedelta, [_TD], True),
    "Path": (pathlib.Path, [_PATH], True),
    "Enum": (Color, [Color.RED], True),
    # conforming values are built at run time: equal to the literal arguments, not the same objects
    "Literal": (typing.Literal["alpha", 3000], ["".join(["al", "pha"]), int("3000")], True),
    "Any": (typing.Any, [1, ALWAYS_EQ, None, FOREIGN], False),
    "Missing": (Missing, [MISSING], False),
    "Callable": (cabc.Callable[[int], int], [_fn, len], False),
    "Protocol": (Runner, [_RUN], False),
    "State": (Inner, [_INNER, _INNER2], False),
    "Node": (Node, [_NODE1, _NODE2], False),
    "GInt": (GI[int], [_GI1], False),
}
LEAF_NAMES = list(LEAVES)
# leaves used by special families only (not part of the depth-bounded term enumeration)
LEAVES["Literal2"] = (typing.Literal["beta", 7], ["".join(["be", "ta"]), int("7")], True)
LEAVES["LiteralA"] = (typing.Literal["alpha"], ["".join(["al", "pha"])], True)
LEAVES["LiteralB"] = (typing.Literal["beta"], ["".join(["be", "ta"])], True)
SMALL_LEAVES = ["int", "str", "None"]
MID_LEAVES = ["int", "str", "None", "State"]

UNARY = ["seq", "set", "frozenset", "map_str", "map_int", "tuplev", "optional", "alias", "qalias", "box"]
BINARY = ["tuple2", "union"]

# atoms used to break a value at one position
ATOMS = [7, "s", None, 3.5, FOREIGN, MISSING]


def is_leaf(t) -> bool:
    return t[0] in LEAVES


def hashable_term(t) -> bool:
    k = t[0]
    if k in LEAVES:
        return LEAVES[k][2]
    if k in ("tuple2", "tuplev"):
        return all(hashable_term(s) for s in t[1:])
    if k in ("union", "optional", "alias"):
        return all(hashable_term(s) for s in t[1:])
    if k == "frozenset":
        return hashable_term(t[1])
    return False


def well_formed(t) -> bool:
    k = t[0]
    if k in LEAVES:
        return True
    if k in ("set", "frozenset") and not hashable_term(t[1]):
        return False
    if k == "union" and (t[1] == t[2]):
        return False
    return all(well_formed(s) for s in t[1:])


def terms(depth: int, leaves: list[str]):
    """All well-formed terms of depth <= `depth` (depth 1 = leaf) over the given leaves."""
    if depth <= 0:
        return
    for name in leaves:
        yield [name]
    if depth == 1:
        return
    inner = list(terms(depth - 1, leaves))
    for c in UNARY:
        for s in inner:
            t = [c, s]
            if well_formed(t):
                yield t
    for c in BINARY:
        for a in inner:
            for b in inner:
                t = [c, a, b]
                if well_formed(t):
                    yield t


def depth_of(t) -> int:
    return 1 + max((depth_of(s) for s in t[1:]), default=0)


# ---------------------------------------------------------------------------------------------
# term -> typing annotation

_alias_n = [0]


_ann_memo: dict[str, typing.Any] = {}


def annotation(t):
    """memoised: one term -> one annotation object (aliases and specialised classes are created
    once and kept alive)"""
    key = repr(t)
    if key not in _ann_memo:
        _ann_memo[key] = _annotation(t)
    return _ann_memo[key]


def _annotation(t):  # noqa: C901, PLR0911, PLR0912
    k = t[0]
    if k in LEAVES:
        return LEAVES[k][0]
    if k == "seq":
        return cabc.Sequence[annotation(t[1])]
    if k == "set":
        return cabc.Set[annotation(t[1])]
    if k == "frozenset":
        return frozenset[annotation(t[1])]
    if k == "map_str":
        return cabc.Mapping[str, annotation(t[1])]
    if k == "map_int":
        return cabc.Mapping[int, annotation(t[1])]
    if k == "tuplev":
        return tuple[annotation(t[1]), ...]
    if k == "tuple2":
        return tuple[annotation(t[1]), annotation(t[2])]
    if k == "optional":
        return typing.Optional[annotation(t[1])]  # noqa: UP007
    if k == "union":
        return typing.Union[annotation(t[1]), annotation(t[2])]  # noqa: UP007
    if k == "alias":
        _alias_n[0] += 1
        return typing.TypeAliasType(f"P{_alias_n[0]}", annotation(t[1]))
    if k == "qalias":
        return QSeq[annotation(t[1])]
    if k == "box":
        return Box[annotation(t[1])]
    raise ValueError(k)


def unwrap(t):
    """term that describes the *values*: alias -> inner, qalias -> seq(inner)"""
    if t[0] == "alias":
        return unwrap(t[1])
    if t[0] == "qalias":
        return ["seq", t[1]]
    return t


# ---------------------------------------------------------------------------------------------
# conforming values (fresh containers on every call)


def values(t, limit: int = 3) -> list:  # noqa: C901, PLR0912
    t = unwrap(t)
    k = t[0]
    if k in LEAVES:
        return list(LEAVES[k][1])[:limit]
    if k == "seq":
        vs = values(t[1])
        out = [list(vs[:2]), tuple(vs[:1]), []]
        return out[:limit]
    if k == "tuplev":
        vs = values(t[1])
        return [tuple(vs[:2]), ()][:limit]
    if k == "set":
        vs = values(t[1])
        # (a dict's key view is a collections.abc.Set as well)
        return [set(vs[:2]), dict.fromkeys(vs[:2], 0).keys(), frozenset(vs[:1])][:limit]
    if k == "frozenset":
        vs = values(t[1])
        return [frozenset(vs[:2]), frozenset()][:limit]
    if k in ("map_str", "map_int"):
        vs = values(t[1])
        keys = ["ab", "k", "xyz"] if k == "map_str" else [10, 20, 30]
        return [{keys[i]: v for i, v in enumerate(vs[:2])}, {keys[2]: vs[0]}, {}][:limit]
    if k == "tuple2":
        a, b = values(t[1]), values(t[2])
        return [(a[0], b[0]), (a[-1], b[-1])][:limit]
    if k == "optional":
        return [*values(t[1])[:2], None][:limit]
    if k == "union":
        return [*values(t[1])[:2], *values(t[2])[:2]][: limit + 1]
    if k == "box":
        ann = annotation(t[1])
        out = []
        for v in values(t[1])[:2]:
            try:
                out.append(Box[ann](item=v))
            except Exception as exc:  # noqa: BLE001
                # a conforming inner value is refused by the specialised Box: reported by the caller
                VALUE_FAILURES.append((repr(t), f"{type(exc).__name__}: {exc}"[:160]))
        return out
    raise ValueError(k)


# ---------------------------------------------------------------------------------------------
# oracle


def _combine(parts: list[str]) -> str:
    if N in parts:
        return N
    if U in parts:
        return U
    return Y


def conforms(v, t) -> str:  # noqa: C901, PLR0911, PLR0912, PLR0915
    t = unwrap(t)
    k = t[0]
    if k == "None":
        return Y if v is None else N
    if k == "bool":
        return Y if type(v) is bool else N
    if k == "int":
        return Y if type(v) is int else (U if isinstance(v, int) else N)
    if k == "float":
        return Y if type(v) is float else (U if isinstance(v, (int, float)) else N)
    if k == "str":
        return Y if type(v) is str else (U if isinstance(v, str) else N)
    if k == "bytes":
        return Y if type(v) is bytes else (U if isinstance(v, (bytes, bytearray, memoryview)) else N)
    if k == "UUID":
        return Y if isinstance(v, uuid.UUID) else N
    if k == "datetime":
        return Y if isinstance(v, dt.datetime) else N
    if k == "date":
        return Y if type(v) is dt.date else (U if isinstance(v, dt.date) else N)
    if k == "timedelta":
        return Y if isinstance(v, dt.timedelta) else N
    if k == "Path":
        return Y if isinstance(v, pathlib.Path) else (U if isinstance(v, pathlib.PurePath) else N)
    if k == "Enum":
        return Y if isinstance(v, Color) else N
    if k in ("Literal", "Literal2", "LiteralA", "LiteralB"):
        lits = {"Literal": ("alpha", 3000), "Literal2": ("beta", 7), "LiteralA": ("alpha",), "LiteralB": ("beta",)}[k]
        for lit in lits:
            if type(v) is type(lit) and v == lit:
                return Y
        try:
            if v in lits:
                return U  # equal but differently typed (3000.0 ...)
        except Exception:
            pass
        return N
    if k == "Any":
        return Y
    if k == "Missing":
        return Y if v is MISSING else N
    if k == "Callable":
        return Y if callable(v) else N
    if k == "Protocol":
        return Y if isinstance(v, Runner) else N
    if k == "State":
        return Y if isinstance(v, Inner) else N
    if k == "Node":
        return Y if isinstance(v, Node) else N
    if k == "GInt":
        return Y if isinstance(v, GI[int]) else (U if isinstance(v, GI) else N)
    if k == "seq":
        if type(v) in (list, tuple):
            return _combine([conforms(e, t[1]) for e in v])
        if isinstance(v, (str, bytes, bytearray, range, cabc.Sequence)):
            return U
        return N
    if k == "tuplev":
        if type(v) is tuple:
            return _combine([conforms(e, t[1]) for e in v])
        if isinstance(v, (list, cabc.Sequence)) and not isinstance(v, (str, bytes)):
            return U
        if isinstance(v, (str, bytes)):
            return U
        return N
    if k == "tuple2":
        if type(v) is tuple:
            if len(v) != 2:
                return N
            return _combine([conforms(v[0], t[1]), conforms(v[1], t[2])])
        if isinstance(v, cabc.Sequence):
            return U if len(v) == 2 else N
        return N
    if k == "set":
        if type(v) in (set, frozenset) or isinstance(v, cabc.KeysView):
            return _combine([conforms(e, t[1]) for e in v])
        if isinstance(v, cabc.Set):
            return U
        return N
    if k == "frozenset":
        if type(v) is frozenset:
            return _combine([conforms(e, t[1]) for e in v])
        if isinstance(v, cabc.Set):
            return U
        return N
    if k in ("map_str", "map_int"):
        kt = ["str"] if k == "map_str" else ["int"]
        if type(v) is dict:
            return _combine([conforms(kk, kt) for kk in v] + [conforms(e, t[1]) for e in v.values()])
        if isinstance(v, cabc.Mapping):
            return U
        return N
    if k == "optional":
        if v is None:
            return Y
        return conforms(v, t[1])
    if k == "union":
        a, b = conforms(v, t[1]), conforms(v, t[2])
        if Y in (a, b):
            return Y
        if U in (a, b):
            return U
        return N
    if k == "box":
        ann = annotation(t[1])
        if isinstance(v, Box[ann]):
            return Y
        if isinstance(v, Box):
            return U
        return N
    raise ValueError(k)


def faithful(orig, stored, t) -> bool:  # noqa: C901, PLR0911, PLR0912
    """stored equals the supplied value up to the documented immutable conversion; nothing
    added, dropped, split or re-keyed."""
    t = unwrap(t)
    k = t[0]
    if k in LEAVES or k == "box":
        return stored is orig
    if k in ("seq", "tuplev"):
        if type(stored) is not tuple or len(stored) != len(orig):
            return False
        return all(faithful(o, s, t[1]) for o, s in zip(orig, stored))
    if k == "tuple2":
        if type(stored) is not tuple or len(stored) != 2 or len(orig) != 2:
            return False
        return faithful(orig[0], stored[0], t[1]) and faithful(orig[1], stored[1], t[2])
    if k in ("set", "frozenset"):
        if type(stored) is not frozenset or len(stored) != len(orig):
            return False
        # elements are hashable leaves / tuples of them: equality is element-wise identity enough
        return stored == frozenset(orig)
    if k in ("map_str", "map_int"):
        if isinstance(stored, dict) or not isinstance(stored, cabc.Mapping):
            return False
        if list(stored.keys()) != list(orig.keys()) and set(stored.keys()) != set(orig.keys()):
            return False
        if len(stored) != len(orig):
            return False
        try:
            stored["__probe__"] = 1  # type: ignore[index]
            return False  # mutable
        except TypeError:
            pass
        return all(faithful(orig[kk], stored[kk], t[1]) for kk in orig)
    if k == "optional":
        if orig is None:
            return stored is None
        return faithful(orig, stored, t[1])
    if k == "union":
        ok = False
        for alt in (t[1], t[2]):
            if conforms(orig, alt) == Y:
                try:
                    ok = ok or faithful(orig, stored, alt)
                except Exception:
                    pass
        return ok
    raise ValueError(k)


# ---------------------------------------------------------------------------------------------
# one-position breaks


def _rebuild(container, items):
    if isinstance(container, list):
        return list(items)
    if isinstance(container, tuple):
        return tuple(items)
    if isinstance(container, frozenset):
        return frozenset(items)
    if isinstance(container, set):
        return set(items)
    raise TypeError


def breaks(v, t, depth: int = 0):  # noqa: C901, PLR0912
    """Values obtained from the conforming value `v` by one local change."""
    t = unwrap(t)
    k = t[0]
    if depth == 0:
        for a in ATOMS:
            yield a
    if k in LEAVES or k == "box":
        if k == "box" and depth == 0:
            yield Box[str](item="s")
        return
    if k in ("seq", "tuplev", "set", "frozenset"):
        items = list(v)
        for i, e in enumerate(items):
            for a in ATOMS[:5]:
                try:
                    yield _rebuild(v, [*items[:i], a, *items[i + 1 :]])
                except TypeError:
                    pass
            for b in breaks(e, t[1], depth + 1):
                try:
                    yield _rebuild(v, [*items[:i], b, *items[i + 1 :]])
                except TypeError:
                    pass
        return
    if k == "tuple2":
        for i, sub in ((0, t[1]), (1, t[2])):
            for a in ATOMS[:5]:
                yield tuple(a if j == i else x for j, x in enumerate(v))
            for b in breaks(v[i], sub, depth + 1):
                yield tuple(b if j == i else x for j, x in enumerate(v))
        yield (*v, v[0])  # element added
        yield v[:1]  # element dropped
        yield ()
        return
    if k in ("map_str", "map_int"):
        for kk in list(v):
            for a in ATOMS[:5]:
                d = dict(v)
                d[kk] = a
                yield d
            for b in breaks(v[kk], t[1], depth + 1):
                d = dict(v)
                d[kk] = b
                yield d
            for badkey in (7, "s", None, 3.5):
                d = {(badkey if q == kk else q): w for q, w in v.items()}
                yield d
        return
    if k == "optional":
        if v is not None:
            yield from breaks(v, t[1], depth + 1)
        return
    if k == "union":
        for alt in (t[1], t[2]):
            if conforms(v, alt) == Y:
                yield from breaks(v, alt, depth + 1)
                break
        return


def describe(v, depth: int = 0) -> str:
    """address-free description of a value"""
    if depth > 4:
        return "..."
    if v is MISSING:
        return "MISSING"
    if v is FOREIGN:
        return "Foreign()"
    if isinstance(v, AlwaysEq):
        return "AlwaysEq()"
    if isinstance(v, State):
        return f"{type(v).__name__}({', '.join(f'{a}={describe(getattr(v, a, None), depth + 1)}' for a in type(v).__ATTRIBUTES__)})"
    if isinstance(v, (list, tuple, set, frozenset)):
        inner = ", ".join(sorted((describe(e, depth + 1) for e in v)) if isinstance(v, (set, frozenset)) else [describe(e, depth + 1) for e in v])
        return f"{type(v).__name__}[{inner}]"
    if isinstance(v, (dict, MappingProxyType)):
        return f"{type(v).__name__}{{{', '.join(f'{describe(a, depth + 1)}: {describe(b, depth + 1)}' for a, b in v.items())}}}"
    if callable(v) and not isinstance(v, type):
        return f"<callable {getattr(v, '__name__', type(v).__name__)}>"
    if isinstance(v, HasRun):
        return "HasRun()"
    return repr(v)
