"""Replay one recorded execution without the explorer:  python -m hv.replay <file> [--digest]

Runs harness.execute(program, Chooser(choices)) once on the current tree (HV_REPO), prints the
observation log and the verdict.  exit 1 if the recorded violation signature reproduces,
0 if the execution is clean, 3 if it is violated differently.
"""

import importlib
import json
import sys


def main() -> int:
    path = sys.argv[1]
    quiet = "--digest" in sys.argv[2:] or "--sigs" in sys.argv[2:]
    with open(path) as fh:
        rec = json.load(fh)
    from hv import boot  # noqa: F401
    from hv.core import digest
    from hv.world import Chooser

    harness = importlib.import_module(rec["harness"])
    from hv.core import ExecutionTimeout, Result, _deadline, EXEC_DEADLINE_S, viol

    # "repeat": the same execution is run several times in this one process - for violations that
    # only show once the library carries state over from an earlier use (a module-level table, an
    # id()-keyed memo hit by a re-used address): the first run with a violation is reported
    res = None
    for _run in range(int(rec.get("repeat", 1))):
        ch = Chooser(rec["choices"])
        try:
            prog = rec["program"]
            with _deadline(prog.get("deadline_s", EXEC_DEADLINE_S) if isinstance(prog, dict) else EXEC_DEADLINE_S):
                res = harness.execute(prog, ch)
        except Exception as exc:  # noqa: BLE001
            from hv.core import library_exception_result

            res = library_exception_result(exc)
        except ExecutionTimeout:
            res = Result(
                "timeout",
                True,
                [viol("termination", "execution-does-not-terminate", f"finishes within {EXEC_DEADLINE_S}s", f"still running after {len(ch.choices)} choice points")],
                {"timeout": True},
            )
        if res.violations:
            break
    sigs = sorted(v["signature"] for v in res.violations)
    if "--sigs" in sys.argv[2:]:
        print(json.dumps([{k: v[k] for k in ("clause", "signature", "expected", "observed")} for v in res.violations], default=repr))
    elif quiet:
        print(digest([ch.choices, res.outcome, res.obs, res.violations]))
    else:
        print("property :", rec["property"])
        print("program  :", json.dumps(rec["program"]))
        print("choices  :", ch.choices, " labels:", ",".join(ch.labels))
        print("outcome  :", res.outcome)
        print("observed :", json.dumps(res.obs, indent=1, default=repr))
        for v in res.violations:
            print("VIOLATED :", v["signature"])
            print("   expected:", v["expected"])
            print("   observed:", v["observed"])
        if not res.violations:
            print("clean: no clause violated on this tree")
    if rec["signature"] in sigs:
        return 1
    return 3 if sigs else 0


if __name__ == "__main__":
    try:
        code = main()
    except Exception:  # noqa: BLE001 - a crashing replay is a harness error, not a reproduction
        import traceback

        traceback.print_exc()
        code = 4
    sys.exit(code)
