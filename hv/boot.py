"""Bind the checked tree and own the clock.  MUST be imported before haiway.

HV_REPO (default /repo) selects the tree; its src/ goes to sys.path[0] so it wins over the
editable install in /venv.  After import we assert that haiway really came from there.
"""

import os
import sys

sys.dont_write_bytecode = True

REPO = os.path.realpath(os.environ.get("HV_REPO", "/repo"))
SRC = os.path.join(REPO, "src")

if "haiway" in sys.modules:  # pragma: no cover - ordering guard
    raise RuntimeError("HARNESS-ERROR: haiway imported before hv.boot (virtual clock not bound)")

if not os.path.isdir(os.path.join(SRC, "haiway")):
    raise RuntimeError(f"HARNESS-ERROR: no haiway sources under {SRC}")

sys.path.insert(0, SRC)

# modules that must keep the real clock are imported before the patch
import asyncio  # noqa: E402,F401
import concurrent.futures  # noqa: E402,F401
import logging  # noqa: E402
import queue  # noqa: E402,F401
import threading  # noqa: E402,F401

from hv import vtime  # noqa: E402

vtime.install()

import haiway  # noqa: E402

_where = os.path.realpath(haiway.__file__)
if not _where.startswith(SRC + os.sep):
    raise RuntimeError(f"HARNESS-ERROR: haiway imported from {_where}, expected under {SRC}")

for _name, _m in list(sys.modules.items()):
    if not _name.startswith("haiway"):
        continue
    # a refactoring may legitimately stop importing the clock by name (then the patched
    # `time.monotonic` attribute is used); only a *real* clock bound by name is an error.
    for _attr in ("monotonic", "perf_counter"):
        _v = getattr(_m, _attr, None)
        if _v is not None and _v is not vtime._vmonotonic:
            raise RuntimeError(f"HARNESS-ERROR: {_name}.{_attr} is bound to the real clock")
    for _attr in ("sleep_sync",):
        _v = getattr(_m, _attr, None)
        if _v is not None and _v is not vtime._vsleep:
            raise RuntimeError(f"HARNESS-ERROR: {_name}.{_attr} is bound to the real sleep")

# asyncio.TaskGroup keeps its tasks in a set and cancels them in set order, i.e. in the order of
# their memory addresses: not an owned source of nondeterminism.  Any order is a legal set order;
# the checks fix it to creation order (stamped by VLoop.create_task).
import asyncio.taskgroups as _tg  # noqa: E402


def _abort_in_creation_order(self) -> None:
    self._aborting = True
    for t in sorted(self._tasks, key=lambda t: getattr(t, "_hv_seq", 0)):
        if not t.done():
            t.cancel()


_tg.TaskGroup._abort = _abort_in_creation_order  # type: ignore[method-assign]

import warnings  # noqa: E402

warnings.simplefilter("ignore")  # "coroutine was never awaited" etc. are observations, not output
logging.getLogger().addHandler(logging.NullHandler())
logging.lastResort = None  # never write to stderr


def repo_head() -> str:
    import subprocess

    try:
        head = subprocess.run(
            ["git", "-C", REPO, "rev-parse", "--short", "HEAD"],
            capture_output=True,
            text=True,
            check=False,
        ).stdout.strip()
        dirty = subprocess.run(
            ["git", "-C", REPO, "status", "--porcelain", "--", "src"],
            capture_output=True,
            text=True,
            check=False,
        ).stdout.strip()
        return head + ("+dirty" if dirty else "")
    except Exception:
        return "unknown"

UNRAISABLE: list[str] = []


def _unraisable(u) -> None:  # haiway's ScopeMetrics.__del__ assertion is noise, never a verdict
    if len(UNRAISABLE) < 50:
        UNRAISABLE.append(f"{type(u.exc_value).__name__}: {u.exc_value}")


sys.unraisablehook = _unraisable
