"""Virtual clock.  Installed (by hv.boot) before haiway is imported so that
`from time import monotonic` / `from time import sleep as sleep_sync` inside haiway bind it."""

import time as _time

START = 1000.0


class _Clock:
    __slots__ = ("now", "sleeps", "installed")

    def __init__(self) -> None:
        self.now: float = START
        self.sleeps: list[float] = []
        self.installed: bool = False


CLOCK = _Clock()

_real = {
    "monotonic": _time.monotonic,
    "perf_counter": _time.perf_counter,
    "sleep": _time.sleep,
}


def real_monotonic() -> float:
    return _real["monotonic"]()


def real_sleep(d: float) -> None:
    _real["sleep"](d)


def _vmonotonic() -> float:
    return CLOCK.now


def _vsleep(d: float) -> None:
    # synchronous sleep = the whole world waits: log it and advance virtual time
    CLOCK.sleeps.append(d)
    if d > 0:
        CLOCK.now += d


def install() -> None:
    if CLOCK.installed:
        return
    _time.monotonic = _vmonotonic
    _time.perf_counter = _vmonotonic
    _time.sleep = _vsleep
    CLOCK.installed = True


def reset() -> None:
    CLOCK.now = START
    CLOCK.sleeps.clear()


def advance(d: float) -> None:
    assert d >= 0
    CLOCK.now += d


def now() -> float:
    return CLOCK.now
