"""Shared pieces for the context harnesses (C01-C03, C06-C11): a small family of state types,
supply alphabets, disposable doubles, forest enumeration, context probes."""

import itertools
import logging
from typing import Any

from hv import boot  # noqa: F401

from haiway import Missing, MissingContext, MissingState, State, ctx  # noqa: E402


class A(State):
    x: int = 0
    tag: str = ""


class A2(A):
    pass


class R(State):
    x: int
    tag: str = ""


class G[T](State):
    v: T | None = None
    tag: str = ""


class U(State):
    """required attribute of union type: default construction fails with an ExceptionGroup"""

    v: int | str
    tag: str = ""


class F(State):
    """a state whose instances are falsy (defines __bool__): still a supplied instance"""

    x: int = 0
    tag: str = ""

    def __bool__(self) -> bool:
        return False


class M(State):
    """no declared default for `m`, yet default-constructible: the annotation accepts MISSING"""

    m: int | Missing
    tag: str = ""


class _NoTruth:
    """a value whose `==` yields something that has no truth value (array-like)"""

    def __eq__(self, other):
        return _Ambiguous()

    def __hash__(self) -> int:
        return 7

    def __repr__(self) -> str:
        return "NoTruth()"


class _Ambiguous:
    def __bool__(self) -> bool:
        raise ValueError("The truth value of an array with more than one element is ambiguous")


class N(State):
    """holds a value that cannot be compared for a yes/no answer: the context never needs to"""

    v: Any = None
    tag: str = ""


class IT(State):
    """a state whose class is iterable as well (a collection-like state): still ONE state"""

    x: int = 0
    tag: str = ""

    def __iter__(self):
        return iter((A(tag="member-of-" + self.tag),))

    def __len__(self) -> int:
        return 1


GI = G[int]

FAMILY: dict[str, type[State]] = {"A": A, "A2": A2, "R": R, "G": GI, "U": U, "F": F, "M": M, "IT": IT, "N": N}

# WIDE contexts: twelve more plain state types (W0 .. W11) - a context carrying 9+ distinct types
WIDE = [f"W{i}" for i in range(12)]
for _w in WIDE:
    FAMILY[_w] = type(_w, (State,), {"__annotations__": {"x": int, "tag": str}, "x": 0, "tag": "", "__module__": __name__})


def _twin():
    class Twin(State):
        x: int = 0
        tag: str = ""

    return Twin


# two DISTINCT state classes with the same module and qualified name (factory-made classes)
FAMILY["TA"], FAMILY["TB"] = _twin(), _twin()


# supply alphabet: lists of type names (two entries of one type = two instances, last wins)
SUPPLY = [
    [],
    ["A"],
    ["R"],
    ["A2"],
    ["A", "A"],
    ["A", "R"],
    ["R", "A2"],
    ["G"],
    # "A=" : an instance that is value-equal to (but a different object than) the A instance
    #        supplied by the nearest enclosing block (a fresh A when there is none)
    ["A", "A="],
    ["A="],
    ["U"],
    ["F"],
    ["A", "F"],
    ["M"],
    ["IT"],
    ["A", "IT"],
    ["N"],
]


def make_states(names: list[str], label: str) -> list[State]:
    out: list[State] = []
    for i, n in enumerate(names):
        tag = f"{label}.{i}"
        if n == "R":
            out.append(R(x=1, tag=tag))
        elif n == "U":
            out.append(U(v=1, tag=tag))
        elif n == "M":
            out.append(M(m=1, tag=tag))
        elif n == "N":
            out.append(N(v=_NoTruth(), tag=tag))
        elif n == "A=":
            out.append(A(tag=tag))  # callers re-tag it to equal the enclosing instance
        elif n == "G":
            out.append(GI(v=1, tag=tag))
        else:
            out.append(FAMILY[n](tag=tag))
    return out


class Disp:
    """Plain disposable double: yields `value` on enter, records calls."""

    def __init__(self, value, log: list | None = None, name: str = "d") -> None:
        self.value = value
        self.log = log if log is not None else []
        self.name = name

    async def __aenter__(self):
        self.log.append(("enter", self.name))
        return self.value

    async def __aexit__(self, et, ev, tb):
        self.log.append(("exit", self.name, et.__name__ if et else None))
        return None


def disposables_for(states: list[State], log: list | None = None, lazy: bool = False) -> list[Disp]:
    """Spread the supplied states over disposables: one yields a single state, one a list of the
    rest (a one-shot generator when `lazy`: any Iterable[State] is legal), one yields None."""
    ds: list[Disp] = [Disp(None, log, "none")]
    if states:
        ds.append(Disp(states[0], log, "single"))
    if len(states) > 1:
        rest = list(states[1:])
        ds.append(Disp((st for st in rest) if lazy else rest, log, "list"))
    elif lazy and states:
        # also the single state as a one-element generator
        ds[1] = Disp((st for st in [states[0]]), log, "single-lazy")
    return ds


# ---------------------------------------------------------------------------------------------
# forests


def forest_shapes(n: int):
    """All ordered forests with exactly n nodes, as nested lists of children lists."""
    if n == 0:
        yield []
        return
    for k in range(1, n + 1):  # size of the first tree
        for first_children in forest_shapes(k - 1):
            for rest in forest_shapes(n - k):
                yield [first_children, *rest]


def count_nodes(forest) -> int:
    return sum(1 + count_nodes(c) for c in forest)


def label_forest(shape, labels: list):
    """Attach labels (consumed in pre-order) to a forest shape -> [{'l': label, 'c': [...]}]"""
    it = iter(labels)

    def go(f):
        return [{"l": next(it), "c": go(c)} for c in f]

    return go(shape)


def labelled_forests(n_max: int, alphabet: list):
    for n in range(0, n_max + 1):
        for shape in forest_shapes(n):
            for labels in itertools.product(alphabet, repeat=n):
                yield label_forest(shape, list(labels))


# ---------------------------------------------------------------------------------------------
# probes


def lookup_token(t_name: str, result, supplied: dict[int, str], default) -> tuple:
    if default is not None and result is default:
        return ("default-arg",)
    if id(result) in supplied:
        return ("inst", supplied[id(result)])
    T = FAMILY[t_name]
    try:
        if type(result) is T and result == T():
            return ("constructed",)
    except Exception:
        pass
    return ("unknown", repr(result)[:60])


def probe_state(supplied: dict[int, str], order: str, types=("A", "A2", "R", "G")) -> dict:
    """ctx.state(T) and ctx.state(T, default=d) for every family type, in the given order."""
    out: dict = {}
    for t_name in types:
        T = FAMILY[t_name]
        d = make_states([t_name], "dflt")[0]
        seq = [("nd", None), ("d", d)] if order == "nd-first" else [("d", d), ("nd", None)]
        for k, dflt in seq:
            try:
                res = ctx.state(T) if dflt is None else ctx.state(T, default=dflt)
                out[f"{t_name}/{k}"] = lookup_token(t_name, res, supplied, dflt)
            except MissingContext:
                out[f"{t_name}/{k}"] = ("MissingContext",)
            except MissingState:
                out[f"{t_name}/{k}"] = ("MissingState",)
            except Exception as exc:  # noqa: BLE001
                out[f"{t_name}/{k}"] = ("error", type(exc).__name__)
    return out


def expected_state(env: list[dict], in_scope: bool, types=("A", "A2", "R", "G")) -> dict:
    """Reference: env = stack of {type name: tag of the supplied instance} (innermost last)."""
    out: dict = {}
    for t_name in types:
        found = None
        for level in reversed(env):
            if t_name in level:
                found = level[t_name]
                break
        for k in ("nd", "d"):
            if not in_scope:
                out[f"{t_name}/{k}"] = ("MissingContext",)
            elif found is not None:
                out[f"{t_name}/{k}"] = ("inst", found)
            elif k == "d":
                out[f"{t_name}/{k}"] = ("default-arg",)
            elif t_name in ("R", "U"):
                out[f"{t_name}/{k}"] = ("MissingState",)
            else:
                out[f"{t_name}/{k}"] = ("constructed",)
    return out


class Capture(logging.Handler):
    def __init__(self) -> None:
        super().__init__(level=0)
        self.records: list[logging.LogRecord] = []
        self.errors: list[str] = []

    def emit(self, record: logging.LogRecord) -> None:
        self.records.append(record)
        try:
            record.getMessage()
        except Exception as exc:  # noqa: BLE001
            self.errors.append(f"{type(exc).__name__}: {record.msg!r} % {record.args!r}")

    def handleError(self, record) -> None:  # pragma: no cover
        self.errors.append(f"handleError: {record.msg!r}")
