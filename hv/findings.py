"""KNOWN_FINDINGS.txt: committed, never written at run time.

known: property=<id> signature=<clause/witness-class> <what fails>
fixed: property=<id> <commit> <what failed>          (suppresses nothing)
"""

import os

PATH = os.path.join(os.path.dirname(os.path.dirname(os.path.abspath(__file__))), "KNOWN_FINDINGS.txt")


def load(prop: str) -> dict[str, str]:
    known: dict[str, str] = {}
    if not os.path.exists(PATH):
        return known
    with open(PATH) as fh:
        for line in fh:
            line = line.strip()
            if not line.startswith("known:"):
                continue
            parts = line[len("known:") :].split()
            kv = dict(p.split("=", 1) for p in parts[:2] if "=" in p)
            if kv.get("property") != prop or "signature" not in kv:
                continue
            known[kv["signature"]] = " ".join(parts[2:])
    return known
