"""A hand-stepped asyncio event loop on virtual time.

Stock Task / Future / TaskGroup / gather / shield / Lock / sleep / run_coroutine_threadsafe /
run_in_executor run unmodified on it.  There is no selector: the controller (hv.world) pops
`_ready` (FIFO, as asyncio documents) and chooses which due timer fires.
"""

import asyncio
import gc
import heapq
import re
import sys
import threading
from asyncio import events

from hv.vtime import CLOCK


_ADDR = re.compile(r"0x[0-9a-f]{6,16}")


class Livelock(Exception):
    pass


class VLoop(asyncio.BaseEventLoop):
    def __init__(self) -> None:
        super().__init__()
        self.exc_log: list[dict] = []
        self.set_exception_handler(self._on_exception)
        self.steps = 0
        self._opened = False
        self._old_hooks = None

    # -- BaseEventLoop plumbing -------------------------------------------------------------
    def time(self) -> float:  # virtual
        return CLOCK.now

    def _write_to_self(self) -> None:  # no selector to wake
        pass

    def _process_events(self, event_list) -> None:  # pragma: no cover
        pass

    def _on_exception(self, loop, context) -> None:
        entry = {
            "message": context.get("message"),
            "exception": _ADDR.sub("0x..", repr(context.get("exception"))) if context.get("exception") else None,
        }
        self.exc_log.append(entry)

    # -- lifecycle --------------------------------------------------------------------------
    def open(self) -> None:
        assert not self._opened
        self._opened = True
        self._thread_id = threading.get_ident()
        self._old_hooks = sys.get_asyncgen_hooks()
        sys.set_asyncgen_hooks(
            firstiter=self._asyncgen_firstiter_hook,
            finalizer=self._asyncgen_finalizer_hook,
        )
        events._set_running_loop(self)

    def shutdown(self) -> None:
        """Cancel whatever is left, drain, and detach.  Never raises."""
        try:
            for _ in range(5):
                pending = [t for t in asyncio.all_tasks(self) if not t.done()]
                if not pending:
                    break
                for t in pending:
                    t.cancel()
                try:
                    self.run_ready()
                except BaseException:
                    break
            # retrieve exceptions so that nothing is logged later at GC time
            for t in asyncio.all_tasks(self):
                if t.done() and not t.cancelled():
                    try:
                        t.exception()
                    except BaseException:
                        pass
            self._scheduled.clear()
            self._ready.clear()
        finally:
            ex = self._default_executor
            if ex is not None:
                self._default_executor = None
                try:
                    ex.shutdown(wait=False)
                except Exception:
                    pass
            events._set_running_loop(None)
            if self._old_hooks is not None:
                sys.set_asyncgen_hooks(*self._old_hooks)
            self._thread_id = None
            self._closed = True

    # -- stepping ---------------------------------------------------------------------------
    def collect_overdue(self) -> int:
        """Timers whose deadline has *passed* (strictly) while a callback was running - a step
        that blocked and moved the clock - become ready at the next iteration, behind what is
        already ready: that is what asyncio's `_run_once` does.  Timers due exactly now stay with
        the controller (it explores their tie orders)."""
        n = 0
        while True:
            over = [h for h in self._scheduled if not h._cancelled and h._when < CLOCK.now]
            if not over:
                return n
            h = min(over, key=lambda x: x._when)
            self._scheduled.remove(h)
            heapq.heapify(self._scheduled)
            h._scheduled = False
            self._ready.append(h)
            n += 1

    def run_ready(self, max_steps: int = 20000) -> int:
        """Run callbacks FIFO, iteration by iteration, until `_ready` is empty.  Timers are NOT
        fired here - except the overdue ones, which join at iteration boundaries."""
        n = 0
        ready = self._ready
        while True:
            self.collect_overdue()
            if not ready:
                break
            for _ in range(len(ready)):  # one loop iteration
                handle = ready.popleft()
                if handle._cancelled:
                    continue
                handle._run()
                handle = None
                n += 1
                if n > max_steps:
                    raise Livelock(f"more than {max_steps} callbacks without quiescence")
        self.steps += n
        return n

    def create_task(self, coro, *, name=None, context=None):
        # creation index: used to give `asyncio.TaskGroup` (which keeps its tasks in a *set*, i.e.
        # in address order) a deterministic order when it cancels them - see hv.boot
        task = super().create_task(coro, name=name, context=context)
        self._task_counter = getattr(self, "_task_counter", 0) + 1
        try:
            task._hv_seq = self._task_counter  # type: ignore[attr-defined]
        except AttributeError:  # pragma: no cover - C tasks accept attributes; be safe anyway
            pass
        return task

    def run_iteration(self) -> int:
        """Run exactly one loop iteration: the callbacks that are ready right now, not the ones
        they schedule (asyncio's `_run_once` takes `len(_ready)` up front)."""
        ready = self._ready
        n = 0
        self.collect_overdue()
        for _ in range(len(ready)):
            handle = ready.popleft()
            if handle._cancelled:
                continue
            handle._run()
            handle = None
            n += 1
        self.steps += n
        return n

    def live_timers(self) -> list:
        return [h for h in self._scheduled if not h._cancelled]

    def next_deadline(self) -> float | None:
        live = self.live_timers()
        if not live:
            return None
        return min(h._when for h in live)

    def due_group(self) -> list:
        """Timers sharing the earliest deadline, in scheduling (heap-stable) order."""
        live = self.live_timers()
        if not live:
            return []
        first = min(h._when for h in live)
        return [h for h in live if h._when == first]

    def fire(self, handle) -> None:
        """Advance virtual time to the handle's deadline and make it ready."""
        assert handle in self._scheduled and not handle._cancelled
        self._scheduled.remove(handle)
        heapq.heapify(self._scheduled)
        handle._scheduled = False
        if handle._when > CLOCK.now:
            CLOCK.now = handle._when
        self._ready.append(handle)

    def purge_cancelled_timers(self) -> None:
        if any(h._cancelled for h in self._scheduled):
            kept = []
            for h in self._scheduled:
                if h._cancelled:
                    h._scheduled = False
                else:
                    kept.append(h)
            heapq.heapify(kept)
            self._scheduled = kept
            self._timer_cancelled_count = 0

    def collect(self) -> None:
        """Deterministic GC point (async generator finalisers, 'never retrieved' logs)."""
        gc.collect()
