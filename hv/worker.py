"""One shard of a check:  python -m hv.worker <ID> <tier> <shard> <nshards> <outfile>"""

import gc
import importlib
import json
import os
import signal
import sys
import time as _t
import traceback


def main() -> int:
    prop, tier, shard, nshards, out = sys.argv[1:6]
    shard, nshards = int(shard), int(nshards)
    seed = int(os.environ.get("VERIF_SEED", "0") or 0)
    t0 = _t.time()
    from hv import boot  # noqa: F401  (binds the tree, installs the virtual clock)
    from hv.core import Stats, explore
    from hv.world import HarnessError, ReplayDivergence

    harness = importlib.import_module(f"hv.harness.{prop.lower()}")
    stats = Stats()
    watchdog = int(os.environ.get("HV_WATCHDOG", "0") or 0)
    if watchdog:
        signal.alarm(watchdog)
    # address-space cap per worker: a library change that makes memory explode (e.g. a string that
    # doubles with every call) then fails with MemoryError inside the library - reported like any
    # other unexpected exception - instead of getting the worker killed by the kernel
    try:
        import resource

        cap = int(os.environ.get("HV_MEM_MB", "3072")) * 1024 * 1024
        resource.setrlimit(resource.RLIMIT_AS, (cap, cap))
    except (ImportError, ValueError, OSError):  # pragma: no cover
        pass
    status = "ok"
    error = None
    abandoned = 0
    gc.disable()  # cycles are collected at fixed points by the harnesses (determinism)
    try:
        sample_every = 0
        n_exec_hint = getattr(harness, "SAMPLE_EVERY", {}).get(tier, 0)
        if n_exec_hint:
            sample_every = n_exec_hint + (seed % 7)
        since_gc = 0
        for idx, program in enumerate(harness.programs(tier)):
            cfg = harness.explore_config(tier, program)
            split = cfg.get("split_depth", 0)
            if split == 0 and (idx + seed) % nshards != shard:
                continue
            before = stats.executions
            try:
                explore(
                    harness,
                    program,
                    idx,
                    stats,
                    bound=cfg.get("bound"),
                    cap=cfg.get("cap"),
                    split_depth=split,
                    shard=shard,
                    nshards=nshards,
                    sample_every=sample_every,
                    recheck_every=int(os.environ.get("HV_RECHECK_EVERY", "97") or 97),
                )
            except MemoryError as exc:
                status = "harness-error"
                abandoned += 1
                gc.collect()
                if error is None:
                    error = "MemoryError while exploring program %d (address-space cap reached)" % idx
                if abandoned > 200:
                    break
            except (HarnessError, ReplayDivergence) as exc:
                # this program is abandoned (still a harness error for the run), the remaining
                # programs are explored: violations found elsewhere stay reportable
                status = "harness-error"
                abandoned += 1
                if error is None:
                    error = "".join(traceback.format_exception(exc))
                if abandoned > 200:
                    break
            if getattr(stats, "timeouts", 0) >= 3:
                # the library does not terminate (three executions ran into the wall-clock guard):
                # the violation is recorded, exploring thousands of further programs at 20 s each
                # would only turn the check itself into a hang
                break
            since_gc += stats.executions - before
            if since_gc > 300:
                since_gc = 0
                gc.collect()
    except (HarnessError, ReplayDivergence) as exc:
        status = "harness-error"
        error = "".join(traceback.format_exception(exc))
    except BaseException as exc:  # noqa: BLE001
        status = "harness-error"
        error = "".join(traceback.format_exception(exc))
    payload = stats.to_json()
    payload.update(
        {
            "status": status,
            "error": error,
            "shard": shard,
            "wall_s": _t.time() - t0,
            "head": boot.repo_head() if shard == 0 else None,
        }
    )
    with open(out, "w") as fh:
        json.dump(payload, fh, default=repr)
    return 0 if status == "ok" else 2


if __name__ == "__main__":
    sys.exit(main())
