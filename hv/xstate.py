"""Explicit-state search to a *fixpoint* over operation histories of a long-lived library object.

The stateless explorer (hv.core) enumerates every history up to a length L.  For objects whose
reachable state space is finite once the alphabet is fixed (a cache with 3 keys, a queue whose
backlog is capped, a retry wrapper between uses) this module does the classical thing instead:
breadth-first search where

  * a state is reached by *replaying its history on a fresh object* (live tasks / futures cannot
    be copied),
  * two histories are merged when the **canonical form of the implementation's object graph**
    (plus the reference model's state) coincides,
  * the oracle runs on every transition,
  * and the search ends when no new canonical state appears: every history of *any* length over
    the alphabet has then been covered (each leads to a visited state, whose successors were all
    checked).

Canonicalisation is generic (`canon`): it walks `__dict__` / slots / containers / closures of
library functions / tasks, futures, coroutine frames and the loop's ready queue; time stamps become
offsets from the virtual "now" (everything further than `horizon` in the past is the same past);
registered object addresses become names.  It is used for *merging only* - never for a verdict -
so a refactoring of the internals changes the state count, not the result.

Soundness net for the merging: every merge (a second history reaching a visited state) is
*validated differentially* - all one-step continuations of the merged history must produce the
same observations and the same successor states as the representative's.  A mismatch means the
canonical form misses something the library keeps (e.g. state hoisted to a module global); the
merged history is then explored as a state of its own (`unmerged`), so nothing is hidden; the run
stops being a fixpoint claim only if the state cap is hit.
"""

from __future__ import annotations

import asyncio
import collections
import gc
import types
import weakref
from typing import Any, Callable

from hv import boot, vtime

PAST = "past"


class Canon:
    def __init__(self, names: dict[int, str] | None = None, horizon: float = 8.0) -> None:
        self.names = names or {}
        self.horizon = horizon
        self.now = vtime.now()
        self.memo: dict[int, int] = {}
        self.keep: list[Any] = []

    def t(self, f: float) -> Any:
        rel = f - self.now
        if rel < -self.horizon:
            return PAST
        return ("t", repr(rel))

    def __call__(self, x: Any, depth: int = 0) -> Any:  # noqa: C901, PLR0911, PLR0912
        if x is None or isinstance(x, (str, bytes)):
            return x
        if isinstance(x, bool):
            return ("bool", repr(x))  # 1 == 1.0 == True: keep them apart inside tuples
        if isinstance(x, int):
            name = self.names.get(x)
            return ("id", name) if name is not None else x
        if isinstance(x, float):
            if 500.0 <= x < 1e7:
                return self.t(x)
            return ("float", repr(x))
        if depth > 40:
            return ("deep", type(x).__name__)
        oid = id(x)
        if oid in self.names and not isinstance(x, (int, float)):
            # a registered harness object: by name (its own canonical form, if any, is added by
            # the harness through `extra`)
            hook = getattr(x, "__hv_canon__", None)
            if hook is None:
                return ("obj", self.names[oid])
        if oid in self.memo:
            return ("ref", self.memo[oid])
        hook = getattr(type(x), "__hv_canon__", None)
        if hook is not None:
            return hook(x, self)
        self.memo[oid] = len(self.memo)
        self.keep.append(x)
        d = depth + 1
        if isinstance(x, (list, tuple, collections.deque)):
            return (type(x).__name__, tuple(self(e, d) for e in x))
        if isinstance(x, (dict, types.MappingProxyType)):
            return (type(x).__name__, tuple((self(k, d), self(v, d)) for k, v in x.items()))
        if isinstance(x, (set, frozenset)):
            return (type(x).__name__, tuple(sorted((self(e, d) for e in x), key=repr)))
        if isinstance(x, weakref.ReferenceType):
            return ("weak", self(x(), d))
        if isinstance(x, asyncio.Task):
            return self._task(x, d)
        if isinstance(x, asyncio.Future):
            return self._future(x, d)
        if isinstance(x, asyncio.Handle):
            return self._handle(x, d)
        if isinstance(x, (asyncio.Lock, asyncio.Event, asyncio.Semaphore, asyncio.Condition)):
            waiters = getattr(x, "_waiters", None) or ()
            return (
                type(x).__name__,
                getattr(x, "_locked", getattr(x, "_value", None)),
                tuple(self(w, d) for w in waiters),
            )
        if isinstance(x, asyncio.AbstractEventLoop):
            return ("loop",)
        if isinstance(x, types.CoroutineType):
            return self._coro(x, d)
        if isinstance(x, (types.FunctionType, types.MethodType, types.BuiltinFunctionType)):
            return self._function(x, d)
        if isinstance(x, type):
            return ("type", x.__module__, x.__qualname__)
        if isinstance(x, BaseException):
            return ("exc", type(x).__name__, self(getattr(x, "args", ()), d))
        if isinstance(x, types.ModuleType):
            return ("module", x.__name__)
        import functools

        if isinstance(x, functools.partial):
            return ("partial", self(x.func, d), self(x.args, d), self(x.keywords, d))
        # a plain object: library classes are walked, harness / foreign ones are opaque by type
        mod = getattr(type(x), "__module__", "") or ""
        if mod.startswith("haiway") or mod == "functools" or getattr(x, "__hv_walk__", False):
            fields: list = []
            dct = getattr(x, "__dict__", None)
            if isinstance(dct, dict):
                for k, v in dct.items():
                    if k in ("__wrapped__", "__doc__", "__name__", "__qualname__", "__module__", "__annotations__", "__type_params__", "__defaults__", "__kwdefaults__", "__globals__"):
                        continue
                    fields.append((k, self(v, d)))
            for klass in type(x).__mro__:
                for slot in getattr(klass, "__slots__", ()) or ():
                    if slot in ("__weakref__", "__dict__"):
                        continue
                    try:
                        fields.append((slot, self(getattr(x, slot), d)))
                    except AttributeError:
                        fields.append((slot, "<unset>"))
            return ("obj", type(x).__qualname__, tuple(fields))
        return ("opaque", type(x).__qualname__)

    # -- asyncio objects ---------------------------------------------------------------------
    def _future(self, f: asyncio.Future, d: int) -> Any:
        if not f.done():
            st: Any = ("pending", len(getattr(f, "_callbacks", None) or ()))
        elif f.cancelled():
            st = ("cancelled",)
        else:
            exc = f.exception()
            st = ("exc", self(exc, d)) if exc is not None else ("res", self(f.result(), d))
        return ("future", st)

    def _task(self, t: asyncio.Task, d: int) -> Any:
        if t.done():
            return ("task",) + self._future(t, d)[1:]
        coro = t.get_coro()
        return (
            "task",
            "pending",
            t.cancelling(),
            bool(getattr(t, "_must_cancel", False)),
            self(getattr(t, "_fut_waiter", None), d),
            self._coro(coro, d) if isinstance(coro, types.CoroutineType) else ("coro", type(coro).__name__),
        )

    def _coro(self, c: types.CoroutineType, d: int) -> Any:
        frames = []
        cur: Any = c
        guard = 0
        while cur is not None and guard < 12:
            guard += 1
            fr = getattr(cur, "cr_frame", None) or getattr(cur, "gi_frame", None) or getattr(cur, "ag_frame", None)
            code = getattr(cur, "cr_code", None) or getattr(cur, "gi_code", None) or getattr(cur, "ag_code", None)
            if fr is None or code is None:
                frames.append(("end", type(cur).__name__))
                break
            inlib = code.co_filename.startswith(boot.SRC)
            if inlib:
                loc = tuple((k, self(v, d)) for k, v in sorted(fr.f_locals.items()) if k not in ("self",))
            else:
                loc = ()
            frames.append((code.co_name, fr.f_lasti if inlib else -1, loc))
            cur = getattr(cur, "cr_await", None) or getattr(cur, "gi_yieldfrom", None) or getattr(cur, "ag_await", None)
            if isinstance(cur, asyncio.Future):
                frames.append(self(cur, d))
                break
        return ("coro", tuple(frames))

    def _handle(self, h: asyncio.Handle, d: int) -> Any:
        cb = h._callback
        owner = getattr(cb, "__self__", None)
        when = getattr(h, "_when", None)
        return (
            "handle",
            bool(h._cancelled),
            getattr(cb, "__name__", type(cb).__name__),
            self(owner, d) if isinstance(owner, (asyncio.Future,)) else (self(cb, d) if not owner else type(owner).__name__),
            tuple(self(a, d) for a in (h._args or ())),
            self.t(when) if when is not None else None,
        )

    def _function(self, f: Any, d: int) -> Any:
        if isinstance(f, types.MethodType):
            return ("method", f.__func__.__qualname__, self(f.__self__, d))
        code = getattr(f, "__code__", None)
        name = getattr(f, "__qualname__", getattr(f, "__name__", "?"))
        if code is None or not code.co_filename.startswith(boot.SRC):
            return ("fn", name)  # harness / builtin function: opaque (its closure is harness state)
        cells = []
        for cell in f.__closure__ or ():
            try:
                cells.append(self(cell.cell_contents, d))
            except ValueError:
                cells.append("<empty>")
        return ("libfn", name, tuple(cells))


def loop_state(loop: Any, c: Canon) -> Any:
    """ready queue (FIFO order) and live timers (by deadline, then scheduling order)"""
    ready = tuple(c(h) for h in loop._ready if not h._cancelled)
    timers = tuple(c(h) for h in sorted(loop.live_timers(), key=lambda h: h._when))
    return ("loopq", ready, timers)


def module_state(mod: Any, c: Canon) -> Any:
    """mutable module-level containers of a library module (state hoisted to module scope)"""
    out = []
    for k, v in sorted(vars(mod).items()):
        if k.startswith("__"):
            continue
        if isinstance(v, (list, dict, set, collections.deque, collections.OrderedDict)):
            out.append((k, c(v)))
    return tuple(out)


# ------------------------------------------------------------------------------------------------


def fixpoint(  # noqa: C901, PLR0912, PLR0913, PLR0915
    make: Callable[[], Any],
    *,
    max_states: int = 200000,
    validate_merges: Any = True,  # True / 'all': every merge; 'first': the first merge into each state
    at_state: Callable[[tuple], list] | None = None,
) -> dict:
    """`make()` builds a fresh system with
         .enabled() -> list of operations (hashable, JSON-able) enabled in the current state
         .apply(op) -> observation (JSON-able, canonical: no counters / addresses)
         .viols     -> list the oracle appends to
         .canon()   -> hashable canonical state
         .close()
    `at_state(history)` (optional) runs an extra whole-execution oracle for the representative
    history of every new state (e.g. "drain the queue from here") and returns violations.
    """
    violations: list[dict] = []
    sigs: set = set()

    def note(v: dict, hist: tuple) -> None:
        if v["signature"] not in sigs:
            sigs.add(v["signature"])
            v = dict(v)
            v["history"] = [list(o) if isinstance(o, tuple) else o for o in hist]
            violations.append(v)

    nruns = [0]

    def run(hist: tuple, op: Any = None):
        """replay `hist`, then (optionally) apply `op`; returns (obs, canon, enabled, new violations)"""
        nruns[0] += 1
        if nruns[0] % 64 == 0:
            gc.collect()  # fixed collection points (workers run with automatic GC disabled)
        s = make()
        try:
            for h in hist:
                s.apply(h)
            nv = len(s.viols)
            obs = None
            if op is not None:
                obs = s.apply(op)
            new = s.viols[nv:] if op is not None else list(s.viols)
            k = s.canon()
            en = tuple(s.enabled())
            return obs, k, en, new
        finally:
            s.close()

    _, k0, en0, v0 = run(())
    for v in v0:
        note(v, ())
    seen: dict[Any, tuple] = {k0: ()}
    enabled_of: dict[Any, tuple] = {k0: en0}
    succ: dict[Any, dict] = {}
    frontier = collections.deque([k0])
    merges: list[tuple[tuple, Any]] = []
    transitions = 0
    replayed_ops = 0
    depth = 0
    capped = False
    unmerged = 0
    while frontier:
        k = frontier.popleft()
        hist = seen[k]
        depth = max(depth, len(hist))
        row: dict = {}
        for op in enabled_of[k]:
            obs, k2, en2, new = run(hist, op)
            transitions += 1
            replayed_ops += len(hist) + 1
            h2 = hist + (op,)
            row[repr(op)] = (repr(obs), k2)
            if new:
                for v in new:
                    note(v, h2)
                frontier.clear()  # BFS order: this is a shortest violating history - stop here
                break
            if k2 not in seen:
                if len(seen) >= max_states:
                    capped = True
                    continue
                seen[k2] = h2
                enabled_of[k2] = en2
                frontier.append(k2)
                if at_state is not None:
                    for v in at_state(h2):
                        note(v, h2)
            elif seen[k2] != h2:
                merges.append((h2, k2))
        succ[k] = row
    checked = mism = 0
    if validate_merges and not violations:
        # differential validation of every merge: same observations, same successors
        if validate_merges == "first":
            first: dict = {}
            for h2, k2 in merges:
                first.setdefault(k2, h2)
            merges_to_check = [(h2, k2) for k2, h2 in first.items()]
        else:
            merges_to_check = merges
        pending = collections.deque(merges_to_check)
        while pending:
            h2, k2 = pending.popleft()
            rep = succ.get(k2)
            if rep is None:
                continue
            bad = False
            for op in enabled_of[k2]:
                obs, k3, _en3, new = run(h2, op)
                replayed_ops += len(h2) + 1
                if new:
                    for v in new:
                        note(v, h2 + (op,))
                    bad = True
                    break
                if rep.get(repr(op)) != (repr(obs), k3):
                    bad = True
                    break
            checked += 1
            if bad:
                mism += 1
                if len(mism_hist := h2) and unmerged < 40:
                    # explore the merged history as a state of its own (bounded): the canonical
                    # form misses something - nothing must hide behind it
                    unmerged += 1
                    key = ("unmerged", unmerged, k2)
                    seen[key] = mism_hist
                    sub = collections.deque([(key, mism_hist, 0)])
                    while sub:
                        _key, hh, dd = sub.popleft()
                        if dd >= 2:
                            continue
                        _, _kk, en, _ = run(hh)
                        for op in en:
                            obs, k3, _e, new = run(hh, op)
                            transitions += 1
                            for v in new:
                                note(v, hh + (op,))
                            if not new:
                                sub.append((None, hh + (op,), dd + 1))
    return {
        "states": len(seen),
        "transitions": transitions,
        "replayed_operations": replayed_ops,
        "depth": depth,
        "merges": len(merges),
        "merges_validated": checked,
        "merge_mismatches": mism,
        "capped": capped or mism > 0,
        "violations": violations,
    }


# ------------------------------------------------------------------------------------------------


def deep_probe(  # noqa: C901, PLR0913
    make: Callable[[], Any],
    *,
    cycle_len: int = 2,
    reps: tuple = (9, 20),
    suffix: int = 3,
    cycles: list | None = None,
) -> dict:
    """Histories far beyond the breadth-first horizon, systematically: every *cycle* of at most
    `cycle_len` operations (over the operations enabled initially) is repeated `n` times for each
    n in `reps` - driving the object deep into its life (counters, batch thresholds, compaction,
    wrap-around) - and from the state reached EVERY continuation of at most `suffix` operations is
    executed, the oracle running on every step of the warm-up and of the continuation.
    Exhaustive for the family {cycle^n . w : |cycle| <= cycle_len, n in reps, |w| <= suffix}."""
    violations: list[dict] = []
    sigs: set = set()
    runs = ops_applied = 0

    def note(v: dict, hist: list) -> None:
        if v["signature"] not in sigs:
            sigs.add(v["signature"])
            v = dict(v)
            v["history"] = [list(o) if isinstance(o, tuple) else o for o in hist]
            violations.append(v)

    s0 = make()
    try:
        base = list(s0.enabled())
    finally:
        s0.close()
    if cycles is None:
        cycles = [[a] for a in base]
        if cycle_len >= 2:
            cycles += [[a, b] for a in base for b in base if repr(a) != repr(b)]
    prefixes = 0
    for cyc in cycles:
        for n in reps:
            warm = cyc * n
            prefixes += 1
            # depth-first over continuations, each replayed from a fresh object
            stack: list[list] = [[]]
            while stack:
                w = stack.pop()
                runs += 1
                if runs % 64 == 0:
                    gc.collect()
                s = make()
                try:
                    ok = True
                    hist: list = []
                    for op in warm + w:
                        if repr(op) not in {repr(e) for e in s.enabled()}:
                            ok = False
                            break
                        hist.append(op)
                        s.apply(op)
                        ops_applied += 1
                        if s.viols:
                            for v in s.viols:
                                note(v, hist)
                            ok = False
                            break
                    if ok and len(w) < suffix:
                        for op in reversed(list(s.enabled())):
                            stack.append(w + [op])
                finally:
                    s.close()
            if violations:
                break
        if violations:
            break
    return {"prefixes": prefixes, "executions": runs, "operations": ops_applied, "violations": violations}
