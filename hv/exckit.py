"""Exception classes a wrapped function may raise as *its own* outcome and that a wrapper is
likely to use or catch internally itself.  A wrapper must hand each of them back unchanged (same
object) and must not treat it as one of its own signals."""

import asyncio
import concurrent.futures

OWN_CLASSES: list[type[BaseException]] = [
    TypeError,
    ValueError,
    KeyError,
    IndexError,
    LookupError,
    AttributeError,
    RuntimeError,
    AssertionError,
    TimeoutError,
    OSError,
    StopAsyncIteration,
    asyncio.InvalidStateError,
    ExceptionGroup,
    concurrent.futures.CancelledError,  # an ordinary Exception, unrelated to asyncio.CancelledError
    concurrent.futures.InvalidStateError,
]


def make_own(cls: type[BaseException], tag: str) -> BaseException:
    if cls is ExceptionGroup:
        return ExceptionGroup(tag, [ValueError(tag)])
    if cls in (TimeoutError, OSError):
        return cls(110, tag)
    return cls(tag)
