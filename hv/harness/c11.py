"""C11  Context streams run in their creation context and leave the consumer's intact.

Grammar enumeration: generator shape x creation place x consumption place x consumption mode.
Probes inside the generator body must see the *creation* environment; the consumer's own
fingerprint (state + current metrics scope) must be the same before, between items and after;
the creating scope must complete once the stream is exhausted, closed, abandoned or never
started; the loop's exception handler must stay empty.
"""

import asyncio
import gc
import logging
import re

from hv import boot  # noqa: F401
from hv.core import Result, viol
from hv.ctxkit import A, Capture, MissingContext, MissingState
from hv.vloop import VLoop
from hv.world import Chooser

from haiway import MISSING, State, ctx  # noqa: E402

ID = "C11"
TECHNIQUE = "exhaustive enumeration of generator shape x creation place x consumption place x consumption mode on the real ctx.stream under a hand-stepped loop with owned GC / async-generator finalisation points"
RULE = (
    "generators with 0..3 items ending normally / with an exception (handed over as generator function, as a plain function returning the generator, as functools.partial, as callable object), feature in {plain, nested "
    "scope around the yields, record a metric, spawn a task, nested stream, nested scope entry given up on a timeout}; created inside a "
    "scope (A#1), outside, or by a task under two already completed scopes; consumed in the same scope / a different scope (A#2) / outside any "
    "scope / another task; fully, break after item j, aclose after item j, or never started and "
    "dropped; plus two streams created in one scope consumed in 5 orders in / after / outside that scope; non-trivial = consumer context differs from creation context, or the stream is "
    "not consumed to the end"
)
RULE += " Rounds 10-13: LONG streams (5-128 (257) items); items that look like markers (None, 0, '', exception instances); no scope around a stream holds a foreign metric; a second stream created inside an update; streams prepared by helper tasks that finish first."
ASSUMPTIONS = [
    "GC and async-generator finalisation happen at fixed points (after the consumer finished)",
    "consumer fingerprint = ctx.state(A) result + scope label seen by ctx.log_info",
]
BOUNDS = {"quick": {"items": [0, 1, 2]}, "thorough": {"items": [0, 1, 2, 3]}}
EXHAUSTIVE = {"quick": True, "thorough": True}
SAMPLE_EVERY = {"quick": 150, "thorough": 400}

_FP = re.compile(r"^\[(?P<trace>[^\]]*)\] (\[(?P<label>[^\]]*)\] )?\[(?P<ident>[^\]]*)\] fp$")
_root = logging.getLogger()
_cap = Capture()
_root.addHandler(_cap)
_root.setLevel(logging.DEBUG)


class GenErr(Exception):
    pass


class StreamMetric(State):
    n: int = 0


FEATURES = ["plain", "scope", "record", "spawn", "nested", "missing-item", "spawn-blocked", "record-cleanup", "nested-enter-timeout", "odd-items"]
PLACES = ["same", "other-scope", "outside", "other-task"]


class _Wildcard:
    """an item that claims to equal everything (a matcher object)"""

    def __eq__(self, other) -> bool:
        return True

    def __hash__(self) -> int:
        return 3

    def __repr__(self) -> str:
        return "Wildcard()"


ODD_ITEMS = [None, 0, False, "", _Wildcard(), (), StopAsyncIteration(), None, ValueError("item"), [], 0.0, MISSING]


def programs(tier: str):
    yield from _two_programs(tier)
    # items a stream wrapper might mistake for an end / error marker
    for k in (1, 2, 4, 7, 10):
        for end in ("normal", "error"):
            for place in PLACES:
                for mode in (["full"], ["break", 1], ["aclose", max(1, k - 1)]):
                    yield {"k": k, "end": end, "feature": "odd-items", "created": "in-scope", "place": place, "mode": mode}
    # sources that are not bare generator functions
    for form in ("wrapper", "partial", "object"):
        for created in ("in-scope", "outside"):
            for place in PLACES:
                for mode in (["full"], ["break", 1], ["aclose", 1]):
                    yield {"k": 2, "end": "normal", "feature": "plain", "created": created, "place": place, "mode": mode, "source_form": form}
                    if created == "in-scope":
                        yield {"k": 2, "end": "normal", "feature": "record", "created": created, "place": place, "mode": mode, "source_form": form}
    # LONG streams: 5..17 (33) items, plain / recording / nested-scope generators, every place;
    # full consumption, break / aclose / cancel at the first, a middle and the last item
    for k in (5, 6, 7, 9, 17, 100, 128) if tier == "quick" else (5, 6, 7, 8, 9, 12, 17, 33, 100, 128, 257):
        for end in ("normal", "error"):
            for feature in ("plain", "record", "scope"):
                if feature not in FEATURES:
                    continue
                for place in PLACES:
                    for created in ("in-scope", "outside"):
                        if created == "outside" and feature != "plain":
                            continue
                        modes = [["full"]]
                        if feature == "plain" and created == "in-scope":
                            for j in sorted({1, k // 2, k - 1, k}):
                                modes += [["break", j], ["aclose", j], ["cancel", j]]
                        for mode in modes:
                            yield {"k": k, "end": end, "feature": feature, "created": created, "place": place, "mode": mode, "long": True}
    for k in BOUNDS[tier]["items"]:
        for end in ("normal", "error"):
            for feature in FEATURES:
                for created in ("in-scope", "outside", "in-two-scopes", "under-completed"):
                    if created in ("in-two-scopes", "under-completed") and (feature not in ("plain", "record") or k == 0):
                        continue
                    for place in PLACES:
                        if created == "under-completed" and place != "same":
                            continue
                        modes = [["full"], ["unstarted"]]
                        for j in range(0, k + (1 if end == "error" else 0)):
                            if j < k:
                                modes.append(["break", j + 1])
                                modes.append(["aclose", j + 1])
                                modes.append(["cancel", j + 1])
                        for mode in modes:
                            if feature == "spawn-blocked" and (mode[0] in ("full", "unstarted") or k == 0):
                                continue
                            yield {
                                "k": k,
                                "end": end,
                                "feature": feature,
                                "created": created,
                                "place": place,
                                "mode": mode,
                            }


def explore_config(tier: str, program) -> dict:
    return {}


TWO_ORDERS = ["a-then-b", "b-then-a", "interleaved", "a-break-then-b", "b-aclose-then-a"]


def _two_programs(tier: str):
    # two streams created in ONE scope (optionally with another nested scope run in between),
    # consumed in every order inside the scope, after it was left, or in another task
    for ka in (1, 2):
        for kb in (1, 2):
            for order in TWO_ORDERS:
                for place in ("same", "outside", "other-task"):
                    for between in (False, True):
                        yield {"two": True, "ka": ka, "kb": kb, "order": order, "place": place, "between": between}
                    if ka == kb:
                        yield {"two": True, "ka": ka, "kb": kb, "order": order, "place": place, "between": False, "b_in": "update"}
                        yield {"two": True, "ka": ka, "kb": kb, "order": order, "place": place, "between": False, "b_in": "helper-tasks"}


def _two_streams(program, ch: Chooser) -> Result:  # noqa: C901, PLR0912, PLR0915
    ka, kb, order, place, between = program["ka"], program["kb"], program["order"], program["place"], program["between"]
    loop = VLoop()
    loop.open()
    viols: list[dict] = []
    a1 = A(tag="A#1")
    a_upd = A(tag="A#upd")
    tags = {id(a1): "A#1", id(a_upd): "A#upd"}
    completions: list = []
    ended: dict = {}
    got: dict = {"a": [], "b": []}
    inside: list = []
    timeline: list = []

    def source_for(name: str, k: int):
        async def source():
            try:
                for i in range(k):
                    inside.append([name, i, _state_token(tags)])
                    yield f"{name}{i}"
            finally:
                timeline.append(f"{name}-cleanup")

        return source

    async def drain(name, it, limit=None):
        n = 0
        try:
            while limit is None or n < limit:
                got[name].append(await it.__anext__())
                n += 1
            ended[name] = "abandoned"
        except StopAsyncIteration:
            ended[name] = "end"
            timeline.append(f"{name}-end")
        except BaseException as exc:  # noqa: BLE001
            ended[name] = f"raised {type(exc).__name__}: {exc}"[:120]

    async def consume(sa, sb):
        ia, ib = sa.__aiter__(), sb.__aiter__()
        if order == "a-then-b":
            await drain("a", ia)
            await drain("b", ib)
        elif order == "b-then-a":
            await drain("b", ib)
            await drain("a", ia)
        elif order == "interleaved":
            for _ in range(max(ka, kb) + 1):
                if ended.get("a") != "end":
                    await drain("a", ia, 1)
                if ended.get("b") != "end":
                    await drain("b", ib, 1)
        elif order == "a-break-then-b":
            await drain("a", ia, 1)
            try:
                await ia.aclose()
                ended["a"] = "closed"
                timeline.append("a-end")
            except BaseException as exc:  # noqa: BLE001
                ended["a"] = f"aclose raised {type(exc).__name__}: {exc}"[:120]
            await drain("b", ib)
        else:
            await drain("b", ib, 1)
            try:
                await ib.aclose()
                ended["b"] = "closed"
                timeline.append("b-end")
            except BaseException as exc:  # noqa: BLE001
                ended["b"] = f"aclose raised {type(exc).__name__}: {exc}"[:120]
            await drain("a", ia)

    def done_cb(m):
        completions.append(list(timeline))

    async def main():
        box: dict = {}
        handoff = loop.create_future()
        other = None
        if place == "other-task":

            async def other_task():
                sa, sb = await handoff
                await consume(sa, sb)

            other = loop.create_task(other_task())
            await asyncio.sleep(0)
        async with ctx.scope("creator", a1, completion=done_cb):
            if program.get("b_in") != "helper-tasks":
                box["a"] = ctx.stream(source_for("a", ka))
            if between:
                async with ctx.scope("between"):
                    await asyncio.sleep(0)
            if program.get("b_in") == "update":
                # the second stream is created where the state differs: inside an update block
                with ctx.updated(a_upd):
                    box["b"] = ctx.stream(source_for("b", kb))
            elif program.get("b_in") == "helper-tasks":
                # both streams are prepared by helper tasks that FINISH before anything is consumed
                async def prepare(name, k):
                    box[name] = ctx.stream(source_for(name, k))

                await asyncio.gather(loop.create_task(prepare("a", ka)), loop.create_task(prepare("b", kb)))
                await asyncio.sleep(0)
            else:
                box["b"] = ctx.stream(source_for("b", kb))
            if place == "same":
                await consume(box.pop("a"), box.pop("b"))
            elif place == "other-task":
                handoff.set_result((box.pop("a"), box.pop("b")))
                if order != "interleaved":
                    await other  # the other orders are consumed while the scope is still open
        timeline.append("creator-left")
        if place == "outside":
            await consume(box.pop("a"), box.pop("b"))
        elif other is not None:
            await other

    try:
        task = loop.create_task(main())
        loop.run_ready()
        fail = None
        if not task.done():
            fail = "pending"
        elif task.cancelled():
            fail = "cancelled"
        elif task.exception() is not None:
            fail = f"{type(task.exception()).__name__}: {task.exception()}"[:160]
        task = None
        for _ in range(3):
            gc.collect()
            loop.run_ready()
        w = f"two-streams/{order}/{place}"
        if fail:
            viols.append(viol("a-items", f"driver-error/{w}", "no error escapes", fail))
        want_a = [f"a{i}" for i in range(ka)] if order != "a-break-then-b" else ["a0"]
        want_b = [f"b{i}" for i in range(kb)] if order != "b-aclose-then-a" else ["b0"]
        if got["a"] != want_a or got["b"] != want_b:
            viols.append(viol("a-items", f"items/{w}", [want_a, want_b], [got["a"], got["b"]]))
        for name, want_end in (("a", "closed" if order == "a-break-then-b" else "end"), ("b", "closed" if order == "b-aclose-then-a" else "end")):
            if ended.get(name) != want_end:
                viols.append(viol("a-items", f"terminal/{w}", f"stream {name}: {want_end}", ended.get(name)))
        want_b_state = ["inst", "A#upd"] if program.get("b_in") == "update" else ["inst", "A#1"]
        bad_ctx = [x for x in inside if x[2] != (want_b_state if x[0] == "b" else ["inst", "A#1"])]
        if bad_ctx:
            viols.append(viol("b-creation-context", w + (f"/b-created-in-{program['b_in']}" if program.get("b_in") else ""), "generator a sees A#1, generator b the state current where it was created", bad_ctx[:3]))
        # the creating scope completes exactly once, after it was left and both streams ended
        if len(completions) != 1:
            viols.append(viol("d-completion", f"count/{w}", 1, len(completions), timeline=timeline))
        else:
            at = completions[0]
            # (the generator's own clean-up marks the end of a stream: the completion may fire
            # inside the last __anext__/aclose, before the consumer has seen the end)
            missing = [x for x in ("creator-left", "a-cleanup", "b-cleanup") if x not in at]
            if missing:
                viols.append(viol("d-completion", f"premature/{w}", "after the scope was left and both streams ended", f"fired before {missing}", timeline=timeline))
        bad = [e for e in loop.exc_log]
        if bad:
            viols.append(viol("e-loop-handler", w, "empty", bad[:2]))
        return Result(f"two/{order}/{place}/n={len(completions)}", True, viols, {"timeline": timeline, "ended": ended}, steps=len(timeline) + len(inside))
    finally:
        loop.shutdown()


def _state_token(tags: dict) -> list:
    try:
        s = ctx.state(A)
        return ["inst", tags[id(s)]] if id(s) in tags else ["constructed" if s == A() else "unknown"]
    except MissingContext:
        return ["MissingContext"]
    except MissingState:
        return ["MissingState"]


def _log_token() -> list:
    n0 = len(_cap.records)
    ctx.log_info("fp")
    recs = [r for r in _cap.records[n0:] if isinstance(r.msg, str) and r.msg.endswith("fp")]
    if len(recs) != 1:
        return ["records", len(recs)]
    m = _FP.match(recs[0].msg)
    return ["scope", m.group("label")] if m else ["root"]


def execute(program, ch: Chooser) -> Result:  # noqa: C901, PLR0912, PLR0915
    if program.get("two"):
        return _two_streams(program, ch)
    k, end, feature, created, place, mode = (
        program["k"],
        program["end"],
        program["feature"],
        program["created"],
        program["place"],
        program["mode"],
    )
    loop = VLoop()
    loop.open()
    viols: list[dict] = []
    _cap.records.clear()
    tags: dict[int, str] = {}
    a1, a2 = A(tag="A#1"), A(tag="A#2")
    tags[id(a1)] = "A#1"
    tags[id(a2)] = "A#2"
    inside: list = []  # probes made by the generator body
    consumer_fp: list = []
    got_items: list = []
    outcome_box: dict = {}
    completions: dict[str, int] = {}
    own_all: dict[str, list] = {}
    metrics_box: dict = {}
    records_box: dict = {}
    spawned: list = []
    gen_err = GenErr("gen")
    cleanup: list = []
    blocked_ends: list = []

    def gen_probe(where: str) -> None:
        inside.append([where, _state_token(tags)])

    async def inner_source():
        gen_probe("nested-stream-body")
        yield "n0"

    async def source(_unused=None):
      try:
          gen_probe("start")
          for i in range(k):
              if feature == "scope":
                  async with ctx.scope("gen-inner"):
                      gen_probe(f"item{i}-in-scope")
                      yield i
              elif feature == "record":
                  ctx.record(StreamMetric(n=i))
                  yield i
              elif feature == "spawn":

                  async def child():
                      return 1

                  spawned.append(ctx.spawn(child))
                  yield i
              elif feature == "nested":
                  async for x in ctx.stream(inner_source):
                      inside.append(["nested-item", x])
                  yield i
              elif feature == "spawn-blocked":

                  async def blocked():
                      try:
                          await loop.create_future()  # never resolved
                      except asyncio.CancelledError:
                          blocked_ends.append("cancelled")
                          raise

                  spawned.append(ctx.spawn(blocked))
                  yield i
              elif feature == "nested-enter-timeout":
                  # the generator gives up entering a nested scope whose disposable is too slow
                  # (the entry is cancelled by the timeout and handled here) and goes on
                  class Slow:
                      async def __aenter__(self):
                          await asyncio.sleep(5)

                      async def __aexit__(self, *a):
                          return None

                  try:
                      async with asyncio.timeout(1):
                          async with ctx.scope("gen-inner", disposables=[Slow()]):
                              gen_probe("never-reached")
                  except TimeoutError:
                      pass
                  yield i
              elif feature == "missing-item" and i == 0:
                  yield MISSING  # a legitimate item that happens to be the MISSING constant
              elif feature == "odd-items":
                  # legitimate items a wrapper might mistake for a marker: None, False, 0, "", (),
                  # an exception instance, StopAsyncIteration itself
                  yield ODD_ITEMS[i % len(ODD_ITEMS)]
              else:
                  yield i
              gen_probe(f"after-item{i}")
          gen_probe("end")
          if end == "error":
              raise gen_err
      finally:
          cleanup.append(len(inside))
          if feature == "record-cleanup":
              ctx.record(StreamMetric(n=99))  # recorded by the generator's clean-up code

    # what is handed to ctx.stream: the generator function itself, a plain function that does
    # some work in the context and returns the generator, a functools.partial, a callable object
    source_form = program.get("source_form", "function")
    if source_form == "function":
        stream_source = source
    elif source_form == "wrapper":

        def stream_source():
            gen_probe("source-called")  # code run when the source is called sees the creation context
            return source()

    elif source_form == "partial":
        import functools

        stream_source = functools.partial(source, None)
    else:

        class CallableSource:
            def __call__(self):
                return source()

        stream_source = CallableSource()

    def fp(where: str) -> None:
        consumer_fp.append([where, _state_token(tags), _log_token()])

    async def consume(stream) -> None:
        fp("before")
        if mode[0] == "unstarted":
            outcome_box["out"] = "dropped-unstarted"
            return
        n = 0
        try:
            if mode[0] == "full":
                async for item in stream:
                    got_items.append(item)
                    fp(f"between-{n}")
                    n += 1
                outcome_box["out"] = "end"
            else:
                it = stream.__aiter__()
                while n < mode[1]:
                    got_items.append(await it.__anext__())
                    fp(f"between-{n}")
                    n += 1
                if mode[0] == "cancel":
                    # the consumer is cancelled right before it waits for the next item and
                    # handles the cancellation itself; the stream is abandoned
                    asyncio.current_task().cancel()
                    try:
                        got_items.append(await it.__anext__())
                        outcome_box["out"] = "not-cancelled"
                    except asyncio.CancelledError:
                        asyncio.current_task().uncancel()
                        outcome_box["out"] = "consumer-cancelled"
                    except StopAsyncIteration:
                        outcome_box["out"] = "end-instead-of-cancel"
                elif mode[0] == "aclose":
                    closer = getattr(it, "aclose", None)
                    if closer is None:
                        outcome_box["out"] = "no-aclose"
                    else:
                        await closer()
                        outcome_box["out"] = "closed"
                        outcome_box["cleanup_at_close"] = bool(cleanup)
                else:
                    outcome_box["out"] = "abandoned"
                del it
        except StopAsyncIteration:
            outcome_box["out"] = "end"
        except GenErr as exc:
            outcome_box["out"] = "error" if exc is gen_err else "other-error"
        fp("after")

    def cb(name):
        def record(m):
            completions[name] = completions.get(name, 0) + 1
            metrics_box[name] = m
            own = m.read(StreamMetric)
            merged = [x for x in m.metrics(merge=lambda cur, got_: got_) if isinstance(x, StreamMetric)]
            records_box[name] = {"own": None if own is None else own.n, "merged": [x.n for x in merged]}
            try:
                own_all[name] = [type(x).__name__ for x in m.metrics()]
            except Exception as exc:  # noqa: BLE001
                own_all[name] = [f"metrics() raised {type(exc).__name__}"]

        return record

    async def main() -> None:
        stream_box: dict = {}
        handoff = loop.create_future()
        other = None
        if place == "other-task":

            async def other_task():
                s = await handoff
                await consume(s)

            other = loop.create_task(other_task())  # started outside any scope
            await asyncio.sleep(0)
        if created == "in-two-scopes":
            async with ctx.scope("grand", completion=cb("grand")):
                async with ctx.scope("creator", a1, completion=cb("creator")):
                    stream_box["s"] = ctx.stream(stream_source)
                    if place == "same":
                        await consume(stream_box.pop("s"))
                    elif place == "other-task":
                        handoff.set_result(stream_box.pop("s"))
                        await other
        elif created == "under-completed":
            # the stream is created (and consumed) by a task that inherited two nested scopes
            # which have both been left - and completed - before the task gets to run

            async def late_worker():
                await consume(ctx.stream(stream_source))

            with ctx.scope("grand", completion=cb("grand")):
                with ctx.scope("creator", a1, completion=cb("creator")):
                    late = loop.create_task(late_worker())
            await late
        elif created == "in-scope":
            async with ctx.scope("creator", a1, completion=cb("creator")):
                stream_box["s"] = ctx.stream(stream_source)
                if place == "same":
                    await consume(stream_box.pop("s"))
                elif place == "other-task":
                    handoff.set_result(stream_box.pop("s"))
                    await other
        else:
            stream_box["s"] = ctx.stream(stream_source)
            if place == "same":
                await consume(stream_box.pop("s"))
            elif place == "other-task":
                handoff.set_result(stream_box.pop("s"))
                await other
        if place == "other-scope":
            async with ctx.scope("consumer", a2, completion=cb("consumer")):
                await consume(stream_box.pop("s"))
        elif place == "outside":
            await consume(stream_box.pop("s"))
        stream_box.clear()

    try:
        task = loop.create_task(main())
        for _ in range(50):
            loop.run_ready()
            if task.done():
                break
            grp = loop.due_group()
            if not grp:
                break
            loop.fire(grp[0])
        finished = task.done()
        if finished and not task.cancelled() and task.exception() is not None:
            outcome_box["driver_error"] = f"{type(task.exception()).__name__}: {task.exception()}"[:160]
        # fixed GC / finalisation points
        task = None
        for _ in range(3):
            gc.collect()
            loop.run_ready()
        exc_log = [e for e in loop.exc_log]
        # ---- oracle ----
        consumed_fully = mode[0] == "full"
        n_expected = k if consumed_fully else (0 if mode[0] == "unstarted" else mode[1])
        placement = f"created-{created}/consumed-{place}"
        if not finished:
            viols.append(viol("termination", placement, "driver finishes", "pending"))
        if "driver_error" in outcome_box:
            viols.append(viol("a-items", f"driver-error/{placement}", "no error escapes", outcome_box["driver_error"]))
        # (a) items and terminal outcome
        want_out = {
            "full": "error" if end == "error" else "end",
            "unstarted": "dropped-unstarted",
            "break": "abandoned",
            "aclose": "closed",
            "cancel": "consumer-cancelled",
        }[mode[0]]
        want_items = [("MISSING" if (feature == "missing-item" and i == 0) else (repr(ODD_ITEMS[i % len(ODD_ITEMS)]) if feature == "odd-items" else i)) for i in range(n_expected)]
        seen_items = [("MISSING" if x is MISSING else (repr(x) if feature == "odd-items" else x)) for x in got_items]
        if finished and "driver_error" not in outcome_box:
            if seen_items != want_items or outcome_box.get("out") != want_out:
                viols.append(
                    viol("a-items", f"{feature}/{placement}" if feature == "missing-item" else placement, [want_items, want_out], [seen_items, outcome_box.get("out")])
                )
        # an abandoned / cancelled stream is finalised by the fixed GC points at the latest
        if mode[0] in ("break", "cancel") and finished and len(cleanup) != 1:
            viols.append(viol("d-closed-means-finalised", f"{mode[0]}/{placement}", "generator finalised once", len(cleanup)))
        if mode[0] == "aclose" and outcome_box.get("out") == "closed" and not outcome_box.get("cleanup_at_close"):
            viols.append(
                viol("d-closed-means-finalised", placement, "generator finalised when aclose() returns", "generator still suspended")
            )
        if mode[0] == "full" and outcome_box.get("out") in ("end", "error") and len(cleanup) != 1:
            viols.append(viol("d-closed-means-finalised", f"exhausted/{placement}", 1, len(cleanup)))
        # (b) the generator body sees the creation environment
        want_inside = ["inst", "A#1"] if created != "outside" else ["constructed"]
        for where, tok in inside:
            if where == "nested-item":
                continue
            if tok != want_inside:
                viols.append(viol("b-creation-context", placement, {where: want_inside}, {where: tok}))
                break
        # (c) the consumer's own context is intact before / between / after
        if consumer_fp:
            base = consumer_fp[0][1:]
            for where, *rest in consumer_fp[1:]:
                if rest != base:
                    kind = "between" if where.startswith("between") else "after"
                    viols.append(viol(f"c-consumer-intact-{kind}", placement, {"before": base}, {where: rest}))
                    break
        # (d) scopes complete: the creating scope's completion fires exactly once
        # (a stream that is never started and dropped is neither exhausted nor closed: outside
        #  the statement - its creator is not required to complete)
        if created != "outside" and mode[0] != "unstarted" and completions.get("creator", 0) != 1:
            viols.append(
                viol("d-stream-scope-completes", f"{mode[0]}/{placement}", "creator completion fired once", completions.get("creator", 0))
            )
        if created == "in-two-scopes" and mode[0] != "unstarted" and completions.get("grand", 0) != 1:
            viols.append(viol("d-stream-scope-completes", f"enclosing-scope/{mode[0]}/{placement}", "outer creating scope completes once", completions.get("grand", 0)))
        if place == "other-scope" and completions.get("consumer", 0) != 1:
            viols.append(
                viol("d-consumer-scope-completes", f"{mode[0]}/{placement}", "consumer completion fired once", completions.get("consumer", 0))
            )
        # the creating / consuming / enclosing scopes never record anything themselves: whatever the
        # stream machinery or the generator records belongs to the stream's own scope
        for name, own_types in sorted(own_all.items()):
            if own_types:
                viols.append(viol("c-consumer-intact-metrics" if name == "consumer" or (name == "creator" and place == "same") else "b-records-in-stream-scope", f"foreign-record-in-{name}/{placement}", "no metric of its own", own_types[:3], items=k))
                break
        for name, m in metrics_box.items():
            if not m.is_completed and mode[0] != "unstarted":
                viols.append(viol("d-stream-scope-completes", f"not-completed/{mode[0]}/{placement}", True, False, scope=name))
        # tasks the generator spawned into the stream's scope do not outlive the closed stream
        if feature == "spawn-blocked" and finished:
            alive = [i for i, t in enumerate(spawned) if not t.done()]
            if alive:
                viols.append(viol("d-stream-scope-completes", f"spawned-task-outlives-closed-stream/{mode[0]}", "cancelled with the stream's scope", f"{len(alive)} still running"))
        # a record made by the generator (also by its clean-up code) lands in the stream's own
        # scope: the creating scope sees it in its merged view, not as its own value
        if feature == "record-cleanup" and created != "outside" and mode[0] != "unstarted" and "creator" in records_box:
            rb = records_box["creator"]
            if rb["own"] is not None or 99 not in rb["merged"]:
                viols.append(viol("b-creation-context", f"cleanup-record-outside-stream-scope/{mode[0]}", {"own": None, "merged": [99]}, rb))
        # whatever the generator records belongs to the stream's scope under the CREATING scope: a
        # consuming scope elsewhere never sees it in its merged view
        if feature in ("record", "record-cleanup") and place == "other-scope" and "consumer" in records_box and records_box["consumer"]["merged"]:
            viols.append(viol("c-consumer-intact-metrics", f"generator-records-merged-into-consumer/{mode[0]}/{placement}", {"merged": []}, records_box["consumer"], source=program.get("source_form", "function")))
        if feature == "record" and created == "in-scope" and place != "same" and mode[0] == "full" and k > 0 and "creator" in records_box and not records_box["creator"]["merged"]:
            viols.append(viol("b-creation-context", f"generator-records-missing-from-creating-scope/{placement}", "the creating scope's merged view holds the stream's records", records_box["creator"], source=program.get("source_form", "function")))
        # (e) nothing reaches the loop's exception handler
        if exc_log:
            viols.append(viol("e-loop-clean", f"{mode[0]}/{placement}", "empty", exc_log[:2]))
        nontrivial = place != "same" or not consumed_fully
        outcome = f"{placement}/{mode[0]}/{outcome_box.get('out')}"
        obs = {"items": seen_items, "out": outcome_box.get("out"), "inside": inside[:8], "consumer": consumer_fp[:6], "completions": completions}
        seen = set()
        uniq = []
        for v in viols:
            if v["signature"] not in seen:
                seen.add(v["signature"])
                uniq.append(v)
        return Result(outcome, nontrivial, uniq, obs, steps=len(inside) + len(consumer_fp) + 1)
    finally:
        loop.shutdown()
