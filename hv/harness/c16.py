"""C16  Timeout calls always terminate with the right outcome and leave nothing running.

Program = (duration, outcome kind, extra duration after an ignored cancellation, caller-cancel
instant).  Every timer is fired by the controller; timers sharing a deadline are explored in
every order and (micro-batching) also landing in the same loop iteration.
"""

import asyncio

from hv import boot  # noqa: F401
from hv.core import Result, viol
from hv.exckit import OWN_CLASSES, make_own
from hv.vtime import START, now
from hv.world import Chooser, World
from hv.vloop import Livelock

from haiway.helpers.timeouted import timeout  # noqa: E402

ID = "C16"
TECHNIQUE = "exhaustive schedule exploration of timer orders and caller-cancellation instants on the real timeout wrapper (virtual time)"
RULE = (
    "grid duration{1,2,3} x outcome{value,Exception,falsy Exception,own TimeoutError,own InvalidStateError,BaseException,self-cancel,ignores first "
    "cancellation then runs 1 or 3 more, blocks the loop for its duration then yields once} x timeout 2 x caller cancel at {never, before first "
    "step, 1, 2, 3, 5, or at any quiescent point / between any two loop iterations}; all orders of timers with equal deadline, with and without landing in "
    "one loop iteration; wrapped function that is itself a wrapper object (timeout(10), throttle); "
    "two overlapping calls through one wrapped function; one wrapper used under two event loops in a row; a second timeout derived from a timeout wrapper, both used afterwards; non-trivial = not the plain 'value before deadline, no cancel' case"
)
RULE += ' Round 16: one caller re-using one wrapper right after a timed-out / failed / successful call (11 outcome sequences, incl. a function that works on for 1 s after its cancellation).'
RULE += ' Rounds 10-11: MANY calls (5-70 (100)) through one wrapper started 1/64 apart; deadlines off the millisecond grid / tiny / huge / int with the function finishing just before / after.'
ASSUMPTIONS = [
    "virtual time in exact dyadic units; timers with different deadlines fire in deadline order",
    "the wrapped function handles cancellation as characterised by its kind",
]
BOUNDS = {"quick": {"timeout": 2, "other_timeouts": [0, 0.5, 8], "durations": [1, 2, 3]}, "thorough": {"timeout": 2, "durations": [0.5, 1, 2, 3, 4]}}
EXHAUSTIVE = {"quick": True, "thorough": True}
SAMPLE_EVERY = {"quick": 40, "thorough": 200}

T = 2.0


class FErr(Exception):
    pass


class FBase(BaseException):
    pass


class FEmpty(Exception):
    """an exception object that is falsy (an empty aggregate error)"""

    def __len__(self) -> int:
        return 0


KINDS = ["value", "exc", "base", "selfcancel", "ignore1", "ignore3", "falsy_exc", "own_timeout", "own_invalid"]
# "block_value" / "block_exc": the function BLOCKS the loop for its whole duration (the clock moves
# inside one step), then yields once and ends: if the deadline passed meanwhile, the call times out
# (observable only when the loop gets control back, i.e. at the function's own end time)
CANCELS = [None, "pre", 1, 2, 3, 5]


def programs(tier: str):
    for d in BOUNDS[tier]["durations"]:
        for kind in KINDS:
            for tc in CANCELS:
                for batch in (1, 2):
                    yield {"d": d, "kind": kind, "tc": tc, "batch": batch}
    # the wrapped function is itself a wrapper object (another timeout with a long deadline, a
    # throttle that never throttles): the outer deadline still applies
    for inner in ("timeout10", "throttle", "attrs"):
        for d in (1, 3):
            for kind in ("value", "exc", "ignore1"):
                for tc in (None, 1):
                    yield {"d": d, "kind": kind, "tc": tc, "batch": 1, "inner": inner}
    # the function's own exception is of a class the wrapper might use or handle internally
    for c in range(len(OWN_CLASSES)):
        for d in (1, 2):
            for tc in (None, 1):
                yield {"d": d, "kind": "exc", "tc": tc, "batch": 1, "errclass": c}
    # the caller is cancelled by somebody the function woke up right before it finished: the
    # request reaches the caller before it has resumed, so it ends cancelled
    for d in (1,):
        for kind in ("value", "exc"):
            yield {"d": d, "kind": kind, "tc": None, "batch": 1, "cancel_at_return": True}
            yield {"d": d, "kind": kind, "tc": None, "batch": 1, "cancel_at_return": 2}
    # the caller cancelled by the controller at ANY quiescent point or between two loop iterations
    # (instead of at a fixed instant)
    for d in (1, 2, 3):
        for kind in ("value", "exc", "ignore1", "selfcancel"):
            yield {"d": d, "kind": kind, "tc": None, "batch": 1, "wcancel": True}
    # a function that blocks the loop for its whole duration, then yields once and ends
    for d in (1, 2, 3):
        for kind in ("block_value", "block_exc"):
            yield {"d": d, "kind": kind, "tc": None, "batch": 1}
    # deadlines other than 2: zero (int and float - the deadline has passed as soon as the function
    # suspends), a fraction, a long one
    for tv, as_int in ((0.0, False), (0.0, True), (0.5, False), (8.0, False)):
        for d in (1, 3):
            for kind in ("value", "exc", "ignore1"):
                for tc in (None, 1):
                    yield {"d": d, "kind": kind, "tc": tc, "batch": 1, "T": tv, "T_int": as_int}
    # ONE wrapper used under two event loops one after the other (a module-level decorated
    # function and two asyncio.run calls), every outcome in each
    for d1 in (1, 3):
        for d2 in (1, 3):
            yield {"loops": [d1, d2]}
    # a stricter / laxer timeout derived from an existing timeout wrapper: the original wrapper
    # keeps its own deadline afterwards
    for derived in (0.5, 4.0):
        for d in (1, 3):
            for use_derived_first in (False, True):
                yield {"stacked": derived, "d": d, "use_derived_first": use_derived_first}
    for n in (5, 9, 17, 33, 40, 70) if tier == "quick" else (5, 9, 17, 33, 34, 40, 65, 70, 100):
        for pattern in ("one-long", "all-long", "alternating", "last-long"):
            yield {"many": n, "pattern": pattern}
    # one wrapper used again right after an earlier call ended with a timeout / exception / value
    for seq in RETRY_SEQS:
        yield {"retry": seq}
    for form in FINE_TIMEOUTS:
        for delta in (-2048, -3, -1, 1, 3, 2048):
            yield {"fine": form, "delta": delta}
    # two overlapping calls through one wrapped function, each with its own deadline
    for da in (1, 3):
        for db in (1, 3):
            for off in (0, 0.5, 1.5):
                yield {"pair": [da, db], "offset": off}


def explore_config(tier: str, program) -> dict:
    return {}


FINE_TIMEOUTS = {
    "odd": 2.0 + 1 / 1024,  # not a whole number of milliseconds
    "tiny": 1 / 1024 + 1 / 8192,
    "huge": float(2**20) + 0.5,
    "int": 3,
}


def _fine(program, ch: Chooser) -> Result:
    """deadlines off the millisecond grid / tiny / huge / given as int: the function finishing just
    before the deadline gives its value at that instant, just after it times out AT the deadline"""
    tf = FINE_TIMEOUTS[program["fine"]]
    d = float(tf) + program["delta"] * (float(tf) / 4096)
    w = World(ch)
    viols: list[dict] = []
    try:
        seen: dict = {}

        @timeout(tf)
        async def fn():
            try:
                await asyncio.sleep(d)
                return "v"
            except asyncio.CancelledError:
                seen["cancelled"] = now() - START
                raise

        out: dict = {}

        async def caller():
            try:
                out["r"] = ("value", await fn(), now() - START)
            except TimeoutError:
                out["r"] = ("timeout", None, now() - START)
            except BaseException as exc:  # noqa: BLE001
                out["r"] = ("other", type(exc).__name__, now() - START)

        t = w.task(caller(), name="caller")
        hang = False
        try:
            w.run()
        except Livelock:
            hang = True
        want = ("value", "v", d) if d < float(tf) else ("timeout", None, float(tf))
        if hang or not t.done():
            viols.append(viol("termination", f"fine/{program['fine']}/hangs", "the call terminates", "pending"))
        elif out.get("r") != want:
            viols.append(viol("outcome", f"fine/{program['fine']}/{'before' if d < float(tf) else 'after'}-deadline", list(want), list(out.get("r", ())), timeout=tf, duration=d))
        elif want[0] == "timeout" and "cancelled" not in seen:
            viols.append(viol("cancelled-after-timeout", f"fine/{program['fine']}", "the function observed the cancellation", "it did not"))
        return Result(f"fine/{program['fine']}/{program['delta']}", True, viols, {"out": list(out.get("r", ())), "timeout": tf, "duration": d})
    finally:
        w.close()


def _many(program, ch: Chooser) -> Result:
    """MANY calls through ONE wrapper object (5..70), started 1/64 apart: every call keeps its own
    deadline and its own outcome, however many other calls the wrapper is serving"""
    n, pattern = program["many"], program["pattern"]
    w = World(ch)
    viols: list[dict] = []
    try:

        @timeout(T)
        async def fn(i, d):
            await asyncio.sleep(d)
            return i

        out: dict = {}

        def dur(i: int) -> float:
            if pattern == "one-long":
                return 3.0 if i == 0 else 1 / 128
            if pattern == "all-long":
                return 3.0 + i / 64
            if pattern == "alternating":
                return 3.0 if i % 2 == 0 else 1 / 128
            return 3.0 if i == n - 1 else 0.5 + 1 / 128  # last-long (no two timers share an instant)

        async def caller(i):
            t0 = now()
            try:
                out[i] = ("value", await fn(i, dur(i)), now() - t0)
            except TimeoutError:
                out[i] = ("timeout", None, now() - t0)
            except BaseException as exc:  # noqa: BLE001
                out[i] = ("other", type(exc).__name__, now() - t0)

        tasks: dict = {}
        for i in range(n):
            w.loop.call_at(START + i / 64, lambda i=i: tasks.__setitem__(i, w.task(caller(i), name=f"c{i}")))
        hang = False
        try:
            w.run()
        except Livelock:
            hang = True
        for i in range(n):
            d = dur(i)
            want = ("value", i, d) if d < T else ("timeout", None, T)
            t = tasks.get(i)
            if hang or t is None or not t.done():
                viols.append(viol("termination", f"many-calls/{pattern}/call-hangs", "every call terminates", {"call": i, "of": n, "finished": len(out)}))
                break
            if out.get(i) != want:
                viols.append(viol("outcome", f"many-calls/{pattern}", list(want), list(out.get(i, ())), call=i, of=n))
                break
        return Result(f"many/{pattern}/{n}", True, viols, {"n": n, "pattern": pattern, "finished": len(out)})
    finally:
        w.close()


class RetryErr(Exception):
    pass


RETRY_SEQS = [
    ["long", "value"], ["long", "exc"], ["long", "long", "value"], ["stubborn", "value"], ["stubborn", "exc"],
    ["stubborn", "long", "value"], ["value", "long", "value"], ["exc", "value"], ["exc", "long", "exc"],
    ["stubborn", "stubborn", "value"], ["long", "value", "value", "long", "value"],
]


def _retry(program, ch: Chooser) -> Result:
    """ONE caller using ONE wrapper again right after an earlier call ended (with a timeout, with the
    function's own exception, with a value): every call has its own outcome and its own deadline.
    "stubborn" = a function that answers the cancellation it gets at the deadline by working on for
    another 1 s (its caller has got the timeout at the deadline all the same)"""
    seq = program["retry"]
    w = World(ch)
    viols: list[dict] = []
    try:
        errs = {i: RetryErr(f"own{i}") for i in range(len(seq))}
        began: list = []
        ended: list = []

        @timeout(T)
        async def fn(i, kind):
            began.append(i)
            if kind in ("value", "exc"):
                await asyncio.sleep(0.5)
                if kind == "exc":
                    raise errs[i]
                return i
            try:
                await asyncio.sleep(3 * T)
            except asyncio.CancelledError:
                if kind != "stubborn":
                    raise
                await asyncio.sleep(1.0)
                ended.append(i)
            return i

        out: list = []

        async def caller():
            for i, kind in enumerate(seq):
                t0 = now()
                try:
                    out.append(["value", await fn(i, kind), now() - t0])
                except TimeoutError:
                    out.append(["timeout", None, now() - t0])
                except BaseException as exc:  # noqa: BLE001
                    out.append(["exc", "own" if exc is errs[i] else type(exc).__name__, now() - t0])

        t = w.task(caller(), name="caller")
        hang = False
        try:
            w.run()
        except Livelock:
            hang = True
        want = [["value", i, 0.5] if k == "value" else ["exc", "own", 0.5] if k == "exc" else ["timeout", None, T] for i, k in enumerate(seq)]
        if hang or not t.done():
            viols.append(viol("termination", "reuse/call-hangs", "every call terminates", {"finished": len(out), "of": len(seq)}))
        elif t.cancelled() or t.exception() is not None:
            viols.append(viol("outcome", "reuse/caller-ends-abnormally", "the caller runs on", "cancelled" if t.cancelled() else repr(t.exception())[:120], outcomes=out))
        elif out != want:
            first = next(i for i in range(len(want)) if i >= len(out) or out[i] != want[i])
            viols.append(viol("outcome", f"reuse/after-{seq[first - 1] if first else 'nothing'}", want[first], out[first] if first < len(out) else None, sequence=seq, outcomes=out))
        if began != list(range(len(seq))) and not viols:
            viols.append(viol("outcome", "reuse/function-not-started-once-per-call", list(range(len(seq))), began))
        stubborn = [i for i, k in enumerate(seq) if k == "stubborn"]
        if ended != stubborn and not viols:
            viols.append(viol("outcome", "reuse/abandoned-execution-disturbed", stubborn, ended))
        return Result(f"retry/{'-'.join(seq)}", True, viols, {"sequence": seq, "outcomes": out})
    finally:
        w.close()


def _pair(program, ch: Chooser) -> Result:
    (da, db), off = program["pair"], program["offset"]
    w = World(ch)
    viols: list[dict] = []
    try:
        seen: dict = {}

        @timeout(T)
        async def fn(name, d):
            try:
                await asyncio.sleep(d)
                return name
            except asyncio.CancelledError:
                seen[name] = "cancelled"
                raise

        out: dict = {}

        async def caller(name, d):
            t0 = now() - START
            try:
                out[name] = ("value", await fn(name, d), now() - START - t0)
            except TimeoutError:
                out[name] = ("timeout", None, now() - START - t0)
            except BaseException as exc:  # noqa: BLE001
                out[name] = ("other", type(exc).__name__, now() - START - t0)

        ta = w.task(caller("A", float(da)), name="A")
        tasks = {"A": ta}
        w.loop.call_at(START + off, lambda: tasks.__setitem__("B", w.task(caller("B", float(db)), name="B")))
        hang = False
        try:
            w.run()
        except Livelock:
            hang = True
        for name, d in (("A", da), ("B", db)):
            t = tasks.get(name)
            want = ("value", name, float(d)) if d < T else ("timeout", None, T)
            if hang or t is None or not t.done():
                viols.append(viol("termination", f"overlapping-calls/{name}-hangs", "call terminates", f"pending; other call finished: {out}"))
            elif out.get(name) != want:
                viols.append(viol("outcome", f"overlapping-calls/{name}", list(want), list(out.get(name, ()))))
        return Result(f"pair/{da}/{db}", True, viols, {"trace": w.trace, "out": {k: list(v) for k, v in out.items()}})
    finally:
        w.close()


def _call_once(fn, d: float, ch: Chooser, label: str):
    """one call of fn(d) under a fresh world; -> (kind, seconds) or ('hang', None)"""
    w = World(ch)
    out: dict = {}
    try:

        async def caller():
            t0 = now()
            try:
                out["r"] = ("value", await fn(d), now() - t0)
            except TimeoutError:
                out["r"] = ("timeout", None, now() - t0)
            except BaseException as exc:  # noqa: BLE001
                out["r"] = ("other", f"{type(exc).__name__}: {exc}"[:100], now() - t0)

        t = w.task(caller(), name=label)
        try:
            w.run()
        except Livelock:
            return ("hang", None, None)
        if not t.done():
            return ("hang", None, None)
        return out.get("r", ("none", None, None))
    finally:
        w.close()


def _sequential(program, ch: Chooser) -> Result:
    viols: list[dict] = []
    obs: dict = {}

    async def body(d):
        await asyncio.sleep(d)
        return d

    if "loops" in program:
        fn = timeout(T)(body)
        for i, d in enumerate(program["loops"]):
            got = _call_once(fn, float(d), ch, f"loop{i}")
            want = ("value", float(d), float(d)) if d < T else ("timeout", None, T)
            obs[f"loop{i}"] = list(got)
            if tuple(got) != want:
                viols.append(viol("outcome" if got[0] != "hang" else "termination", f"second-event-loop/use{i + 1}", list(want), list(got)))
        return Result(f"loops/{program['loops']}", True, viols, obs, steps=2)
    inner = timeout(T)(body)
    derived = timeout(program["stacked"])(inner)
    d = float(program["d"])
    order = [("derived", derived, min(T, program["stacked"])), ("inner", inner, T)]
    if not program["use_derived_first"]:
        order.reverse()
    order.append(("inner", inner, T))  # and the original once more at the end
    for i, (name, fn, limit) in enumerate(order):
        got = _call_once(fn, d, ch, f"{name}{i}")
        want = ("value", d, d) if d < limit else ("timeout", None, limit)
        obs[f"{i}:{name}"] = list(got)
        if tuple(got) != want:
            viols.append(viol("outcome" if got[0] != "hang" else "termination", f"derived-timeout/{name}-after-{'derived' if i else 'nothing'}", list(want), list(got), derived=program["stacked"]))
    return Result(f"stacked/{program['stacked']}", True, viols, obs, steps=3)


def execute(program, ch: Chooser) -> Result:  # noqa: C901, PLR0912, PLR0915
    if "pair" in program:
        return _pair(program, ch)
    if "many" in program:
        return _many(program, ch)
    if "retry" in program:
        return _retry(program, ch)
    if "fine" in program:
        return _fine(program, ch)
    if "loops" in program or "stacked" in program:
        return _sequential(program, ch)
    d, kind, tc, batch = program["d"], program["kind"], program["tc"], program["batch"]
    T = program.get("T", 2.0)  # noqa: N806 - the deadline of this program (module default 2)
    w = World(ch, batch=batch, cancel_budget=1 if program.get("wcancel") else 0, fine=bool(program.get("wcancel")))
    wcancel_at: list[float] = []
    w.on_cancel = lambda name: wcancel_at.append(now() - START)
    log: list = []
    viols: list[dict] = []
    try:
        err = FErr("own") if kind != "falsy_exc" else FEmpty("own-empty")
        if kind == "own_timeout":
            err = TimeoutError(110, "Connection timed out")  # the function's own, not the wrapper's
        elif kind == "own_invalid":
            err = asyncio.InvalidStateError("own")  # the class Future.set_result itself raises
        if "errclass" in program:
            err = make_own(OWN_CLASSES[program["errclass"]], "own")
        base = FBase("own-base")
        st = {"started": False, "saw_cancel": False, "ended": False, "end_t": None}

        async def fn(a, *, k):
            st["started"] = True
            assert (a, k) == ("arg", "kw")
            try:
                try:
                    if kind.startswith("block_"):
                        from hv import vtime as _vt

                        _vt.advance(float(d))  # a blocking step: time passes, the loop does not run
                        await asyncio.sleep(0)
                    else:
                        await asyncio.sleep(d)
                except asyncio.CancelledError:
                    st["saw_cancel"] = True
                    if kind.startswith("ignore"):
                        await asyncio.sleep(1.0 if kind == "ignore1" else 3.0)
                        return "late"
                    raise
                if program.get("cancel_at_return") == 2:
                    # two hops: the request is made AFTER the wrapper has learnt the outcome and
                    # BEFORE the caller has resumed (cancel() still returns True: it must end cancelled)
                    w.loop.call_soon(lambda: w.loop.call_soon(task.cancel))
                elif program.get("cancel_at_return"):
                    w.loop.call_soon(task.cancel)  # runs before the caller is resumed
                if kind in ("exc", "falsy_exc", "own_timeout", "own_invalid", "block_exc"):
                    raise err
                if kind == "base":
                    raise base
                if kind == "selfcancel":
                    raise asyncio.CancelledError()
                return "v"
            finally:
                st["ended"] = True
                st["end_t"] = now() - START

        if program.get("inner") == "timeout10":
            fn = timeout(10.0)(fn)
        elif program.get("inner") == "attrs":
            fn._timeout = 99.0  # an attribute of the wrapped function named like the wrapper's own
            fn._function = None
        elif program.get("inner") == "throttle":
            from haiway.helpers.throttling import throttle

            fn = throttle(limit=5, period=1.0)(fn)
        fn = timeout(int(T) if program.get("T_int") else T)(fn)
        res: dict = {}

        async def caller():
            try:
                res["out"] = ("value", await fn("arg", k="kw"))
            except asyncio.CancelledError:
                res["out"] = ("cancelled",)
                res["t"] = now() - START
                raise
            except BaseException as exc:  # noqa: BLE001
                res["out"] = ("raised", type(exc).__name__, exc is err or exc is base)
            res["t"] = now() - START

        task = w.task(caller(), name="caller", victim=bool(program.get("wcancel")))
        cancel_handle = None
        if tc == "pre":
            task.cancel()
        elif tc is not None:
            cancel_handle = w.loop.call_at(START + tc, task.cancel)
        hang = False
        leftover: list = []
        try:
            w.run(until=lambda: task.done() and (st["ended"] or not st["started"]))
            # both the call and the function are over: nothing of the wrapper is left scheduled
            mine = {id(cancel_handle)} if cancel_handle is not None else set()
            leftover = [h for h in w.loop.live_timers() if id(h) not in mine]
            w.run()
        except Livelock:
            hang = True
        log.append(list(w.trace))
        if task.done() and task.cancelled() and "out" not in res:
            res["out"] = ("cancelled",)  # cancelled before its first step
            res["t"] = 0.0
        # ---- oracle ----
        own = {
            "value": ("value", "v"),
            "exc": ("raised", "FErr", True),
            "falsy_exc": ("raised", "FEmpty", True),
            "base": ("raised", "FBase", True),
            "own_timeout": ("raised", "TimeoutError", True),
            "own_invalid": ("raised", "InvalidStateError", True),
            "block_value": ("value", "v"),
            "block_exc": ("raised", "FErr", True),
            "selfcancel": ("cancelled",),
            "ignore1": ("value", "v"),
            "ignore3": ("value", "v"),
        }[kind]
        if "errclass" in program:
            own = ("raised", type(err).__name__, True)
        events = [(float(d), "own"), (T, "timeout")]
        if tc == "pre":
            events.append((-1.0, "cancel"))
        elif tc is not None:
            events.append((float(tc), "cancel"))
        if wcancel_at:
            # the controller cancelled the caller at a quiescent point or between two loop
            # iterations: counts as a cancel at that virtual instant
            events.append((wcancel_at[0], "cancel"))
        first = min(t for t, _ in events)
        allowed = []
        if program.get("cancel_at_return"):
            events = [(float(d), "cancel")]
            first = float(d)
        for t, what in events:
            if t == first:
                if what == "own":
                    allowed.append((own, t))
                elif what == "timeout":
                    # (a blocking function: the expiry is noticed when the loop runs again)
                    allowed.append((("raised", "TimeoutError", False), max(t, float(d)) if kind.startswith("block_") else t))
                else:
                    allowed.append((("cancelled",), max(t, 0.0)))
        obs = {"result": res.get("out"), "t": res.get("t"), "fn": dict(st), "trace": w.trace}
        if hang or not task.done():
            viols.append(
                viol("termination", f"caller-hangs/{kind}", "caller task done", "pending forever", fn=dict(st))
            )
        else:
            got = (tuple(res["out"]), res["t"])
            if got not in [(tuple(a), t) for a, t in allowed]:
                viols.append(
                    viol(
                        "outcome",
                        f"{kind}/first={'+'.join(sorted(wh for t, wh in events if t == first))}",
                        [[list(a), t] for a, t in allowed],
                        [list(got[0]), got[1]],
                    )
                )
            # the caller's task state must agree with what it observed
            if res["out"][0] == "cancelled" and not task.cancelled():
                viols.append(viol("outcome", "cancel-not-propagated", "task cancelled", "not cancelled"))
            # after timeout / caller cancel the function has been asked to cancel (or never ran)
            if res["out"] in (("raised", "TimeoutError", False), ("cancelled",)) and kind != "selfcancel":
                finished_by_itself = st["ended"] and not st["saw_cancel"] and st["end_t"] is not None and st["end_t"] <= res["t"]
                if st["started"] and not st["saw_cancel"] and not finished_by_itself:
                    viols.append(
                        viol("function-cancelled", kind, "function observed a cancellation request", dict(st))
                    )
        if st["started"] and not st["ended"] and not hang:
            viols.append(viol("nothing-running", kind, "function ended at quiescence", dict(st)))
        if leftover and not hang and program.get("inner") in (None, "attrs"):
            viols.append(
                viol("nothing-running", f"timer-left-scheduled/{kind}", "no timer of the wrapper pending once call and function are over", f"{len(leftover)} timer(s) due at {[h._when - START for h in leftover]}")
            )
        bad = [e for e in w.loop.exc_log if e["message"] and "Exception in callback" in e["message"]]
        if bad:
            viols.append(viol("callback-exception", kind, "no exception escapes a loop callback", bad[:2]))
        outcome = f"{res.get('out', ('hang',))[0]}/{kind}/sawcancel={st['saw_cancel']}"
        nontrivial = not (kind == "value" and tc is None and d < T)
        return Result(outcome, nontrivial, viols, obs)
    finally:
        w.close()
