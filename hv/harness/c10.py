"""C10  Recorded metrics land in the innermost active scope and fold deterministically.

Scope trees with task-placed nodes and record events at arbitrary positions (also outside any
scope and after the scope completed); the controller explores every interleaving of the recording
tasks.  The reference attributes every record, in the observed global order, to the recorder's
current scope and left-folds with the merge function supplied on that call.
"""

import asyncio
import itertools

from hv import boot  # noqa: F401
from hv import vtime
from hv.core import Result, viol
from hv.vloop import Livelock
from hv.world import Chooser, World

from haiway import MISSING, State, ctx  # noqa: E402

ID = "C10"
TECHNIQUE = "stateless exploration (DFS, prefix replay) of all interleavings of recording tasks over scope trees on the real metrics context; reference = per-task scope stack + left fold in observed order"
RULE = (
    "scope trees (root + up to 2 children as star or chain - plus chain-and-later-sibling with 3 - placed inline / ctx.spawn / create_task; "
    "optionally the child scope is left by a handled cancellation) with up to R "
    "records at positions {outside before, root before children, child body, root after "
    "children, child task after its scope, outside after} x metric type {M1, M2} x merge "
    "{default replace, concatenate (non-commutative), raising}; sub-family: one shared immutable metric instance recorded "
    "repeatedly; every completion callback reads every type three times (plain, with a default, plain); every interleaving; "
    "non-trivial = two records of one type reach the same scope, or a record is made outside / "
    "after completion, or a merge raises"
)
RULE += ' Round 19: 34 / 40 children under one root.'
RULE += ' Round 16: the one-child programs also with the child scope left by an ordinary exception of its body (handled by the surrounding code).'
RULE += ' Rounds 10-13: WIDE scopes (4-9 (12) children, one or two in tasks outliving their siblings); scope objects created in one order and entered in another; own trace id / logger on nested scopes; a merge callable switched between two view requests.'
ASSUMPTIONS = [
    "M2 instances are falsy (__bool__ returns False): still folded like any other metric",
    "a record made through a context whose scope already completed is dropped (and never raises)",
]
BOUNDS = {
    "quick": {"children": 2, "records": 3, "records_two_children": 2},
    "thorough": {"children": 2, "records": 4, "records_two_children": 3},
}
EXHAUSTIVE = {"quick": True, "thorough": True}
SAMPLE_EVERY = {"quick": 6000, "thorough": 120000}


class M1(State):
    n: int
    trail: str


class M2(State):
    n: int
    trail: str

    def __bool__(self) -> bool:  # a metric whose instances are falsy is still a recorded value
        return False


class MG[T](State):
    n: int
    trail: str
    extra: T | None = None


def concat(lhs, rhs):
    return type(rhs)(n=lhs.n + rhs.n, trail=lhs.trail + rhs.trail)


def raising(lhs, rhs):
    raise ZeroDivisionError("merge fails")


def view_concat(cur, got):
    if cur is MISSING:
        return got
    return type(got)(n=cur.n + got.n, trail=cur.trail + got.trail)


def view_concat_base(cur, got):
    """like view_concat, but the folded value of a generic metric is built with the unparametrised
    class (MG instead of MG[int]): a different runtime class for the same metric"""
    if cur is MISSING:
        return got
    cls = MG if type(got).__name__.startswith("MG") else type(got)
    return cls(n=cur.n + got.n, trail=cur.trail + got.trail)


def view_first(cur, got):
    return got if cur is MISSING else cur


class SwitchMerge:
    """a merge callable object; `fn` may be exchanged between two requests"""

    def __init__(self, fn) -> None:
        self.fn = fn

    def __call__(self, cur, got):
        return self.fn(cur, got)


POSITIONS1 = ["out-pre", "root-pre", "c0-body", "root-post", "c0-late", "out-post"]
OPTIONS = [("M1", "default"), ("M1", "concat"), ("M1", "raising"), ("M2", "default"), ("M2", "concat"), ("MG", "concat")]


def _chain_plus_sibling(tier: str):
    # c0 contains c1, and c2 is a later first-level sibling of c0: the merged view folds nested
    # scopes depth first in creation order (c0, c1, c2), not level by level
    for p2 in ("inline", "create"):
        for p1 in ("inline", "spawn"):
            for nrec in (2, 3):
                for pos in itertools.combinations_with_replacement(["root-pre", "c0-body", "c1-body", "c2-body"], nrec):
                    if "c1-body" not in pos or "c2-body" not in pos:
                        continue
                    for opts in itertools.product((0, 1), repeat=nrec):
                        yield {
                            "root": "a",
                            "children": ["inline", p1, p2],
                            "shape": "chain2",
                            "c0_end": "return",
                            "records": [[p, *OPTIONS[o]] for p, o in zip(pos, opts)],
                        }


def _heir(tier: str):
    # a plain task created inside c0's body (it inherits c0 as its innermost scope, enters nothing)
    # records at any time: into c0 as long as c0 has not completed - also after c0's owner has left
    # it while a nested scope (c1, in yet another task) keeps it open - and nowhere afterwards
    for p1 in ("spawn", "create"):
        for nrec in (1, 2, 3):
            for pos in itertools.combinations_with_replacement(["c0-body", "c0-heir", "c1-body"], nrec):
                if "c0-heir" not in pos:
                    continue
                for opts in itertools.product((0, 1), repeat=nrec):
                    yield {
                        "root": "a",
                        "children": ["inline", p1],
                        "shape": "chain",
                        "c0_end": "return",
                        "records": [[p, *OPTIONS[o]] for p, o in zip(pos, opts)],
                    }


def _wide_programs(tier: str):
    """WIDE scopes: 4..9 (12) children under one root, one or two of them in plain / spawned tasks
    that may outlive their siblings; and children whose scope objects are created in one order and
    entered in another.  The root's merged view folds them in CREATION order."""
    for k in (4, 5, 6, 9) if tier == "quick" else (4, 5, 6, 7, 9, 12):
        for pos in sorted({0, 1, k // 2, k - 1}):
            for how in ("create", "spawn"):
                yield {"wide": k, "tasks": [pos], "how": how}
        if k <= 6:
            for pair in ((0, 1), (0, k - 1), (1, k - 2)):
                yield {"wide": k, "tasks": list(pair), "how": "create"}
                if k == 4:
                    yield {"wide": k, "tasks": list(pair), "how": "spawn"}
    # VERY wide: 34 / 40 children one after the other (the last one may run in a task of its own)
    for k in (34, 40):
        yield {"wide": k, "tasks": [], "how": "create"}
        yield {"wide": k, "tasks": [k - 1], "how": "create"}
        yield {"wide": k, "tasks": [k - 1], "how": "spawn"}
    for k in (2, 3, 5):
        yield {"wide": k, "tasks": [], "how": "create", "same_label": True}
        yield {"wide": k, "tasks": [0], "how": "create", "same_label": True}
        yield {"wide": k, "tasks": [k - 1], "how": "spawn", "same_label": True}
    for opts in ("trace", "logger"):
        for k in (2, 3, 4):
            yield {"wide": k, "tasks": [], "how": "create", "opts": opts}
            yield {"wide": k, "tasks": [0], "how": "create", "opts": opts}
            yield {"wide": k, "tasks": [k - 1], "how": "spawn", "opts": opts}
    for perm in itertools.permutations(range(3)):
        yield {"wide": 3, "tasks": [], "how": "create", "prepared": list(perm)}
    for k in (4, 5, 7):
        for perm in (list(reversed(range(k))), [*range(1, k), 0], [k - 1, *range(k - 1)], [*range(0, k, 2), *range(1, k, 2)]):
            yield {"wide": k, "tasks": [], "how": "create", "prepared": perm}
            yield {"wide": k, "tasks": [perm[0]], "how": "create", "prepared": perm}


def _wide(program, ch: Chooser) -> Result:  # noqa: C901, PLR0915
    w = World(ch)
    viols: list[dict] = []
    k, tasked, how, prepared = program["wide"], set(program["tasks"]), program["how"], program.get("prepared")
    events: list = []
    created: dict[str, int] = {}
    cbs: dict[str, dict] = {}
    letters = "abcdefghijklmnop" + "".join(chr(0x3B1 + i) for i in range(24))  # 40 one-character labels with upper-case forms
    raised: list = []

    def make_cb(name: str, is_root: bool):
        def cb(metrics):
            e = cbs.setdefault(name, {"count": 0})
            e["count"] += 1
            e["seq"] = len(events)
            events.append(("completed", name))
            m = metrics.read(M1)
            e["own"] = None if m is None else (m.n, m.trail)
            if is_root:
                e["view"] = [(x.n, x.trail) for x in metrics.metrics(merge=view_concat) if hasattr(x, "trail")]

        return cb

    def rec(letter: str) -> None:
        try:
            ctx.record(M1(n=1, trail=letter), merge=concat)
        except BaseException as exc:  # noqa: BLE001
            raised.append(f"{type(exc).__name__}: {exc}"[:100])

    def create(i: int):
        name = f"c{i}"
        label = "item" if program.get("same_label") else name  # siblings may share one scope name
        vtime.advance(0.125)  # time passes between any two steps (measured times / stamps differ)
        created[name] = len(events)
        events.append(("created", name))
        kw = {}
        if program.get("opts") == "trace" and i % 2 == 0:
            kw["trace_id"] = f"own-trace-{i}"  # an own trace id: still a nested scope of the root
        elif program.get("opts") == "logger" and i % 2 == 0:
            import logging as _logging

            kw["logger"] = _logging.getLogger(f"own.logger.{i}")
        return ctx.scope(label, completion=make_cb(name, False), **kw)

    async def child(i: int, cm=None) -> None:
        name = f"c{i}"
        if cm is None:
            await w.pause(f"{name}.enter")
            cm = create(i)
        else:
            await w.pause(f"{name}.enter")
        vtime.advance(0.125)
        async with cm:
            rec(letters[i])
            if i % 3 == 0:
                rec(letters[i].upper())
            await w.pause(f"{name}.exit")

    async def root() -> None:
        async with ctx.scope("root", completion=make_cb("root", True)):
            rec("r")
            cms = [create(i) for i in range(k)] if prepared else None
            order = prepared if prepared else list(range(k))
            for i in order:
                cm = cms[i] if cms else None
                if i in tasked:
                    if how == "spawn":
                        ctx.spawn(child, i, cm)
                    else:
                        w.loop.create_task(child(i, cm))
                else:
                    await child(i, cm)
            await w.pause("root.exit")

    try:
        t = w.task(root(), name="root-task")
        hang = False
        try:
            w.run()
        except Livelock:
            hang = True
        if hang or not t.done():
            viols.append(viol("termination", "hang", "all tasks finish", w.trace[-5:]))
        elif not t.cancelled() and t.exception() is not None:
            viols.append(viol("never-raises", "task-failed", "no exception", repr(t.exception())[:160]))
        if raised:
            viols.append(viol("never-raises", "record-raises/wide", "ctx.record never raises", raised[:2]))
        for i in range(k):
            name = f"c{i}"
            want = (2, letters[i] + letters[i].upper()) if i % 3 == 0 else (1, letters[i])
            got = cbs.get(name, {})
            if got.get("count", 0) != 1:
                viols.append(viol("completion", "callback-count", 1, got.get("count", 0), scope=name))
            elif got.get("own") != want:
                viols.append(viol("left-fold" if got.get("own") else "lands-in-innermost", f"wide/{'fold' if got.get('own') else 'lost'}/M1", {name: want}, {name: got.get("own")}))
        r = cbs.get("root", {})
        if r.get("count", 0) != 1:
            viols.append(viol("completion", "callback-count", 1, r.get("count", 0), scope="root"))
        else:
            inview = sorted((n for n in created if created[n] < r["seq"]), key=lambda n: created[n])
            trail = "r" + "".join((letters[int(n[1:])] + letters[int(n[1:])].upper()) if int(n[1:]) % 3 == 0 else letters[int(n[1:])] for n in inview)
            want_view = [(len(trail), trail)]
            if r.get("view") != want_view:
                viols.append(viol("merged-view", "wide/creation-order", want_view, r.get("view"), created=sorted(created, key=created.get), entered=program.get("prepared")))
        order_created = sorted(created, key=created.get)
        shuffled = order_created != [f"c{i}" for i in range(k)] or bool(prepared)
        return Result(f"wide/k={k}/tasks={len(tasked)}/prepared={bool(prepared)}/shuffled={shuffled}", bool(tasked) or bool(prepared), viols[:4], {"trace": w.trace, "created": order_created})
    finally:
        w.close()


def programs(tier: str):
    yield from _wide_programs(tier)
    yield from _heir(tier)
    yield from _chain_plus_sibling(tier)
    for p in _base_programs(tier):
        yield p
        # the same immutable metric instance recorded again and again (a shared constant)
        if len(p["children"]) <= 1 and 2 <= len(p["records"]) <= 3 and all(r[1] == "M1" and r[2] in ("default", "concat") for r in p["records"]):
            yield dict(p, same=True)


def _base_programs(tier: str):
    b = BOUNDS[tier]
    places = ("inline", "spawn", "create")
    for nchild in range(0, b["children"] + 1):
        positions = ["out-pre", "root-pre", "root-post", "out-post"]
        for c in range(nchild):
            positions += [f"c{c}-body", f"c{c}-late"]
        for placement in itertools.product(places, repeat=nchild):
            for root_kind, shape, c0_end in (
                ("a", "star", "return"),
                ("s", "star", "return"),
                ("a", "chain", "return"),
                ("a", "star", "cancel"),
                ("a", "star", "raise"),
                ("s", "star", "raise"),
            ):
                if root_kind == "s" and nchild == 2:
                    continue
                if shape == "chain" and nchild != 2:
                    continue
                if c0_end in ("cancel", "raise") and nchild != 1:
                    continue
                if tier == "quick" and c0_end == "raise" and root_kind == "s":
                    continue  # (thorough only)
                if tier == "quick" and nchild == 2 and shape != "chain" and not (
                    root_kind == "a" and c0_end == "return" and placement == ("create", "create")
                ):
                    continue  # quick: two children as a chain, or as two plain-task children
                for nrec in range(1, b["records"] + 1):
                    if nchild == 2 and nrec > b["records_two_children"]:
                        continue
                    for pos in itertools.combinations_with_replacement(positions, nrec):
                        if nchild and nrec == b["records"] and not any(p.startswith("c") for p in pos):
                            continue
                        for opts in itertools.product(range(len(OPTIONS)), repeat=nrec):
                            if nrec >= 3 and (sum(1 for o in opts if o == 3) > 1 or 4 in opts or 5 in opts):
                                continue
                            if nchild >= 1 and nrec == 2 and 5 in opts and opts != (5, 5):
                                continue
                            if nrec == 4 and len(set(opts)) > 2:
                                continue
                            if shape == "chain" and not any(p.startswith("c1") for p in pos):
                                continue
                            if tier == "quick" and nchild == 2 and any(o > 1 for o in opts):
                                continue
                            if nchild == 2 and nrec == 3 and (
                                any(o > 1 for o in opts)
                                or not (shape == "chain" or placement == ("create", "create"))
                            ):
                                continue  # thorough: three records over two children only in the quick tier's shapes
                            if c0_end in ("cancel", "raise") and not any(p in ("c0-late", "root-post") for p in pos):
                                continue
                            yield {
                                "root": root_kind,
                                "children": list(placement),
                                "shape": shape,
                                "c0_end": c0_end,
                                "records": [[p, *OPTIONS[o]] for p, o in zip(pos, opts)],
                            }


def explore_config(tier: str, program) -> dict:
    return {"cap": 200000}


class _BodyFailed(Exception):
    pass


def execute(program, ch: Chooser) -> Result:  # noqa: C901, PLR0915
    if "wide" in program:
        return _wide(program, ch)
    w = World(ch)
    viols: list[dict] = []
    events: list = []
    recs = program["records"]
    letters = [("t" if program.get("same") and r[1] == "M1" else "abcdefgh"[i]) for i, r in enumerate(recs)]
    tick = M1(n=1, trail="t")
    raised_into_user: list = []
    reread_bad: list = []
    heirs: list = []
    observed_order: list = []  # (record index, target scope or None)
    scopes: dict[str, dict] = {}  # name -> {"created": seq, "cb": {...}, "completed": bool}
    stacks: dict[str, list[str]] = {}  # task name -> scope stack (reference)

    def cur_task_name() -> str:
        t = asyncio.current_task(w.loop)
        return t.get_name() if t else "?"

    def do_record(i: int) -> None:
        _, tname, mname = recs[i]
        # the generic metric type is subscripted afresh at every record (MG[int] each time)
        T = {"M1": M1, "M2": M2}.get(tname) or MG[int]
        metric = tick if (program.get("same") and tname == "M1") else T(n=1, trail=letters[i])
        stack = stacks.get(cur_task_name(), [])
        target = stack[-1] if stack else None
        if target is not None and scopes[target].get("completed"):
            target = None  # completed scope: the record is dropped
        observed_order.append((i, target))
        try:
            if mname == "default":
                ctx.record(metric)
            elif mname == "concat":
                ctx.record(metric, merge=concat)
            else:
                ctx.record(metric, merge=raising)
        except BaseException as exc:  # noqa: BLE001
            raised_into_user.append((i, f"{type(exc).__name__}: {exc}"[:100]))

    async def run_records(position: str) -> None:
        for i, r in enumerate(recs):
            if r[0] == position:
                await w.pause(f"rec{i}")
                do_record(i)

    def make_cb(name: str, is_root: bool):
        def cb(metrics):
            scopes[name]["completed"] = True
            entry = {"M1": metrics.read(M1), "M2": metrics.read(M2), "MG": metrics.read(MG[int])}
            # reading is an observation: with a default, without one, again - nothing changes
            sentinel = M1(n=-7, trail="default-of-the-reader")
            again = {"M1": metrics.read(M1, default=sentinel), "M2": metrics.read(M2), "MG": metrics.read(MG[int])}
            third = metrics.read(M1)
            if (again["M1"] is not (entry["M1"] if entry["M1"] is not None else sentinel)) or again["M2"] is not entry["M2"] or again["MG"] is not entry["MG"] or third is not entry["M1"]:
                reread_bad.append(name)
            if is_root:
                entry["view_concat"] = metrics.metrics(merge=view_concat)
                entry["view_first"] = metrics.metrics(merge=view_first)
                entry["view_concat_base"] = metrics.metrics(merge=view_concat_base)
                # ... and through ONE callable object whose behaviour the caller switches between
                # two requests (what a view was for one request says nothing about the next)
                switch = SwitchMerge(view_concat)
                entry["inline_concat"] = metrics.metrics(merge=switch)
                switch.fn = view_first
                entry["inline_first"] = metrics.metrics(merge=switch)
            scopes[name]["cb"] = entry
            scopes[name]["cb_seq"] = len(events)
            events.append(("completed", name))
            scopes[name]["cb_count"] = scopes[name].get("cb_count", 0) + 1

        return cb

    async def child(c: int, inherited: list[str]) -> None:
        name = f"c{c}"
        me = cur_task_name()
        stacks.setdefault(me, list(inherited))
        await w.pause(f"{name}.enter")
        scopes[name] = {"created": len(events), "parent": stacks[me][-1] if stacks[me] else None}
        events.append(("created", name))
        try:
            async with ctx.scope(name, completion=make_cb(name, False)):
                stacks[me].append(name)
                try:
                    if any(r[0] == f"{name}-heir" for r in recs):

                        async def heir(inherited=list(stacks[me]), position=f"{name}-heir"):
                            stacks[cur_task_name()] = inherited
                            await run_records(position)

                        heirs.append(w.loop.create_task(heir(), name=f"{name}-heir-task"))
                    await run_records(f"{name}-body")
                    if c == 0 and program.get("shape") in ("chain", "chain2"):
                        place = program["children"][1]
                        if place == "inline":
                            await child(1, stacks[me])
                        elif place == "spawn":
                            ctx.spawn(child, 1, list(stacks[me]))
                        else:
                            w.loop.create_task(child(1, list(stacks[me])))
                    await w.pause(f"{name}.exit")
                    if c == 0 and program.get("c0_end") == "cancel":
                        # the scope is left by a cancellation which the surrounding code handles
                        asyncio.current_task().cancel()
                        await asyncio.sleep(0)
                    if c == 0 and program.get("c0_end") == "raise":
                        # ... or by an ordinary exception of its body which the surrounding code handles
                        raise _BodyFailed(name)
                finally:
                    stacks[me].pop()
        except asyncio.CancelledError:
            if not (c == 0 and program.get("c0_end") == "cancel"):
                raise
            asyncio.current_task().uncancel()
        except _BodyFailed:
            pass
        await run_records(f"{name}-late")

    async def root() -> None:
        me = cur_task_name()
        stacks[me] = []
        scopes["root"] = {"created": len(events), "parent": None}
        events.append(("created", "root"))
        cm = ctx.scope("root", completion=make_cb("root", True))
        if program["root"] == "a":
            await cm.__aenter__()
        else:
            cm.__enter__()
        stacks[me].append("root")
        await run_records("root-pre")
        for c, place in enumerate(program["children"]):
            if c == 1 and program.get("shape") in ("chain", "chain2"):
                continue  # started by c0
            if place == "inline":
                await child(c, stacks[me])
            elif place == "spawn":
                t = ctx.spawn(child, c, list(stacks[me]))
            else:
                t = w.loop.create_task(child(c, list(stacks[me])))
        await run_records("root-post")
        await w.pause("root.exit")
        stacks[me].pop()
        if program["root"] == "a":
            await cm.__aexit__(None, None, None)
        else:
            cm.__exit__(None, None, None)

    async def outside(position: str) -> None:
        stacks[cur_task_name()] = []
        await run_records(position)

    try:
        tasks = [w.task(root(), name="root-task")]
        if any(r[0] == "out-pre" for r in recs):
            tasks.append(w.task(outside("out-pre"), name="out-pre-task"))
        if any(r[0] == "out-post" for r in recs):
            tasks.append(w.task(outside("out-post"), name="out-post-task"))
        hang = False
        try:
            w.run()
        except Livelock:
            hang = True
        if hang or any(not t.done() for t in tasks):
            viols.append(viol("termination", "hang", "all tasks finish", w.trace[-5:]))
        for t in tasks:
            if t.done() and not t.cancelled() and t.exception() is not None:
                viols.append(viol("never-raises", "task-failed", "no exception", repr(t.exception())[:160]))
        if raised_into_user:
            viols.append(viol("never-raises", f"record-raises/{recs[raised_into_user[0][0]][0].split('-')[0]}", "ctx.record never raises", raised_into_user[:2]))
        # ---- reference fold ----
        ref: dict[str, dict[str, tuple[int, str]]] = {name: {} for name in scopes}
        dropped = 0
        merges_failed = 0
        collisions = 0
        for i, target in observed_order:
            _, tname, mname = recs[i]
            if target is None:
                dropped += 1
                continue
            cur = ref[target].get(tname)
            new = (1, letters[i])
            if cur is None:
                ref[target][tname] = new
            else:
                collisions += 1
                if mname == "default":
                    ref[target][tname] = new
                elif mname == "concat":
                    ref[target][tname] = (cur[0] + 1, cur[1] + letters[i])
                else:
                    merges_failed += 1  # raising merge: value unchanged

        def tup(m):
            return None if m is None else (m.n, m.trail)

        for name, sc in scopes.items():
            if sc.get("cb_count", 0) != 1:
                viols.append(viol("completion", "callback-count", 1, sc.get("cb_count", 0), scope=name))
                continue
            for tname in ("M1", "M2", "MG"):
                got = tup(sc["cb"][tname])
                want = ref[name].get(tname)
                if got != want:
                    where = "lost" if got is None else ("foreign" if want is None else "fold")
                    viols.append(
                        viol(
                            "lands-in-innermost" if where != "fold" else "left-fold",
                            f"{where}/{tname}",
                            {name: want},
                            {name: got},
                            order=[[recs[i][0], recs[i][2], letters[i], t] for i, t in observed_order],
                        )
                    )
        # merged view of the root: own values, then nested scopes in creation order, depth first
        if "root" in scopes and scopes["root"].get("cb_count") == 1:
            kids = sorted(
                (n for n in scopes if scopes[n].get("parent") == "root" and scopes[n]["created"] < scopes["root"]["cb_seq"]),
                key=lambda n: scopes[n]["created"],
            )

            def view(name, f_name):
                """own values, then the views of nested scopes in creation order (depth first)"""
                acc: dict[str, tuple[int, str]] = dict(ref[name])
                nested = sorted(
                    (n for n in scopes if scopes[n].get("parent") == name and scopes[n]["created"] < scopes["root"]["cb_seq"]),
                    key=lambda n: scopes[n]["created"],
                )
                for k in nested:
                    for tname, val in view(k, f_name).items():
                        cur = acc.get(tname)
                        if cur is None:
                            acc[tname] = val
                        elif f_name == "concat":
                            acc[tname] = (cur[0] + val[0], cur[1] + val[1])
                        # keep-first: existing value wins
                return acc

            def fold(f_name):
                return view("root", f_name)

            for f_name, key in (("concat", "view_concat"), ("first", "view_first"), ("concat", "view_concat_base"), ("concat", "inline_concat"), ("first", "inline_first")):
                got_list = scopes["root"]["cb"][key]
                foreign = [repr(m)[:40] for m in got_list if not hasattr(m, "trail")]
                if foreign:
                    viols.append(viol("merged-view", f"{f_name}/value-never-recorded", "only recorded metrics", foreign[:3]))
                got_list = [m for m in got_list if hasattr(m, "trail")]
                got = {("MG" if type(m).__name__.startswith("MG") else type(m).__name__): (m.n, m.trail) for m in got_list}
                want = fold(f_name)
                if got != want or len(got_list) != len(got):
                    viols.append(viol("merged-view", f_name, want, got, order=[[recs[i][0], letters[i], t] for i, t in observed_order]))
        if reread_bad:
            viols.append(viol("read", "reading-changes-what-is-read", "read(T), read(T, default), read(T) agree", reread_bad))
        nontrivial = collisions > 0 or dropped > 0 or merges_failed > 0
        outcome = f"scopes={len(scopes)}/coll={min(collisions, 2)}/dropped={min(dropped, 2)}/mfail={min(merges_failed, 1)}"
        obs = {"trace": w.trace, "order": [[recs[i][0], recs[i][1], recs[i][2], letters[i], t] for i, t in observed_order]}
        return Result(outcome, nontrivial, viols[:4], obs)
    finally:
        w.close()
