"""C02  Leaving a scope restores the surrounding context on every exit path.

Nested blocks with every ending, failing / suspending disposables, failing spawned tasks and one
external cancellation at every quiescent point.  Around every block the driver takes a context
fingerprint (state probe, log probe = current metrics scope, spawn probe = owning task group)
before entering and after leaving; the two must agree.
"""

import asyncio
import itertools

from hv import boot  # noqa: F401
from hv.core import Result, viol
from hv.scopeprog import Run
from hv.world import Chooser

ID = "C02"
TECHNIQUE = "stateless schedule + fault exploration (DFS, prefix replay) with one cancellation at every quiescent point; differential oracle: context fingerprint before a block == after it"
RULE = (
    "optional outer scope o up to D nested blocks (async scope / sync scope / update) x ending "
    "{return, raise Exception, raise BaseException} x 0-2 disposables (enter/exit ok / raise / "
    "suspend / suspend-then-raise) x 0-1 spawned task (finishing / failing / blocked) x 0-1 "
    "external cancellation at every quiescent point, all completion orders; non-trivial = the "
    "block does not end by a plain return, or a disposable or spawned task fails or suspends"
)
RULE += ' Rounds 10-11: LONG chains of 4-9 nested blocks (6 kind patterns x 3 supply patterns x return / raise); WIDE contexts (9-12 state types carried by the surrounding block).'
ASSUMPTIONS = [
    "fingerprint = (ctx.state probe, scope label+identifier seen by ctx.log_info, owner of a task "
    "spawned by ctx.spawn observed through who waits for / cancels it)",
    "the spawn probe is skipped when the surrounding task group is already shutting down",
]
BOUNDS = {"quick": {"depth": 2, "disposables": 2, "spawns": 1}, "thorough": {"depth": 3, "disposables": 2, "spawns": 1}}
EXHAUSTIVE = {"quick": True, "thorough": True}
SAMPLE_EVERY = {"quick": 4000, "thorough": 90000}

ENDINGS = ["return", "raise", "raise_base", "raise_falsy", "raise_badstr"]
DMODES = ["ok", "raise", "susp_ok", "susp_raise"]
SPAWN = [
    {"kind": "ret", "pauses": 1},
    {"kind": "raise", "pauses": 1},
    {"kind": "raise", "pauses": 0},
    {"kind": "raise_base", "pauses": 1},  # fails with a BaseException that is not an Exception
]


def _disp_sets(full: bool):
    one = [{"enter": e, "exit": x, "yields": "one" if e == "ok" and x == "ok" else "none"} for e in DMODES for x in DMODES]
    yield []
    for d in one:
        yield [dict(d)]
    if full:
        # two disposables: the combinations that matter for rollback (both exits failing,
        # one enter failing while the other is entered / still entering)
        picks = [
            ("ok", "raise"),
            ("ok", "susp_raise"),
            ("raise", "ok"),
            ("susp_ok", "ok"),
            ("susp_raise", "ok"),
            ("ok", "susp_ok"),
        ]
        for a, b in itertools.combinations_with_replacement(picks, 2):
            yield [
                {"enter": a[0], "exit": a[1], "yields": "none"},
                {"enter": b[0], "exit": b[1], "yields": "none"},
            ]
        # an enter failing with a BaseException that is not an Exception (alone, next to an
        # ordinary failure, next to an entered disposable whose roll-back exit fails as well)
        yield [{"enter": "raise_base", "exit": "ok", "yields": "none"}]
        for a in (("ok", "ok"), ("raise", "ok"), ("ok", "raise"), ("susp_ok", "ok"), ("susp_raise", "ok")):
            yield [{"enter": "raise_base", "exit": "ok", "yields": "none"}, {"enter": a[0], "exit": a[1], "yields": "none"}]


def _single_blocks(rich: bool):
    for kind in ("ascope", "sscope", "updated"):
        for ending in ENDINGS:
            if kind != "ascope":
                yield {"kind": kind, "supply": ["A"], "pause": True, "ending": ending}
                continue
            for ds in _disp_sets(rich):
                for sp in [[]] + ([[dict(s)] for s in SPAWN] if rich or not ds else []):
                    if len(ds) == 2 and sp:
                        continue
                    yield {
                        "kind": "ascope",
                        "supply": ["A"],
                        "disp": ds,
                        "spawns": sp,
                        "pause": True,
                        "ending": ending,
                    }


def programs(tier: str):
    singles = list(_single_blocks(True))
    simple = list(_single_blocks(False))
    for b in singles:
        for outer in (False, True):
            for cancels in (0, 1):
                yield {"block": dict(b), "outer": outer, "cancels": cancels}
    # two events in one loop iteration (a disposable / spawned task finishing a step together with
    # another one, or with the cancellation)
    for b in singles:
        if b["kind"] == "ascope" and (b.get("disp") or b.get("spawns")) and len(b.get("disp", [])) + len(b.get("spawns", [])) >= 1:
            susp = any(d["enter"].startswith("susp") or d["exit"].startswith("susp") for d in b.get("disp", [])) or b.get("spawns")
            if susp:
                for cancels in (0, 1):
                    yield {"block": dict(b), "outer": False, "cancels": cancels, "batch": 2}
    # blocks whose context-manager object was prepared ahead of time: at program start outside
    # everything, or inside the outer scope while the block is entered inside a nested host
    for b in simple:
        for outer in (False, True):
            yield {"block": dict(b, prepared="start"), "outer": outer, "cancels": 0}
    for h in [x for x in simple if not x.get("disp") and x["ending"] == "return"]:
        for i in simple:
            if len(i.get("disp", [])) > 0 and i["disp"][0]["enter"] != "ok":
                continue
            yield {"block": dict(h, child=dict(i, prepared="outer")), "outer": True, "cancels": 0}
            yield {"block": dict(h, child=dict(i, prepared="start")), "outer": False, "cancels": 0}
    # nested blocks that both supply a state holding a value without a yes/no equality (array-like):
    # the context restores by identity, it never needs to compare states
    for hk in ("ascope", "sscope", "updated"):
        for ik in ("ascope", "sscope", "updated"):
            for ending in ("return", "raise"):
                for with_disp in (False, True):
                    if with_disp and ik != "ascope":
                        continue
                    inner_b = {"kind": ik, "supply": ["N"], "pause": True, "ending": ending}
                    if with_disp:
                        inner_b["disp"] = [{"enter": "ok", "exit": "ok", "yields": "none"}]
                        inner_b["spawns"] = []
                    yield {"block": {"kind": hk, "supply": ["N"], "pause": True, "ending": "return", "child": inner_b}, "outer": True, "cancels": 0}
    # a disposable whose exit returns True ("handled")
    for ending in ENDINGS:
        for n in (1, 2):
            disp = [{"enter": "ok", "exit": "ok", "yields": "none", "handles": True}] + ([{"enter": "ok", "exit": "ok", "yields": "none"}] if n == 2 else [])
            for outer in (False, True):
                yield {"block": {"kind": "ascope", "supply": ["A"], "disp": disp, "spawns": [], "pause": True, "ending": ending}, "outer": outer, "cancels": 0}
    # the cancellation injected between two loop iterations
    for b in singles:
        if b["kind"] == "ascope" and len(b.get("disp", [])) <= 1:
            yield {"block": dict(b), "outer": False, "cancels": 1, "fine": True}
    # depth 2: every simple block inside every simple host (host keeps its own ending)
    hosts = [b for b in simple if len(b.get("disp", [])) <= 1]
    inner = [b for b in simple if len(b.get("disp", [])) <= 1]
    for h in hosts:
        if tier == "quick" and h["kind"] == "ascope" and h.get("disp") and h["disp"][0]["enter"] != "ok":
            continue  # the child never runs when the host's enter fails / trivial duplicates
        for i in inner:
            if tier == "quick" and i.get("disp") and h.get("disp"):
                continue
            for cancels in (0, 1):
                if tier == "quick" and cancels and (i.get("disp") or h.get("disp")) and i["ending"] != "return":
                    continue
                yield {"block": dict(h, child=dict(i)), "outer": False, "cancels": cancels}
    # LONG chains: 4..7 (9) blocks nested in each other (an implementation that layers / compacts
    # the scope state, the metrics scopes or the task groups beyond a few levels)
    for depth in (4, 5, 7) if tier == "quick" else (4, 5, 6, 7, 9):
        for pattern in ("u", "s", "a", "usa", "sau", "aus"):
            for supplies in (("A",), ("A", "R"), ("A", "", "R")):
                for ending in ("return", "raise"):
                    for cancels in (0, 1) if (depth == 4 and pattern in ("a", "usa")) else (0,):
                        blk = None
                        for lvl in reversed(range(depth)):
                            kind = {"u": "updated", "s": "sscope", "a": "ascope"}[pattern[lvl % len(pattern)]]
                            sup = supplies[lvl % len(supplies)]
                            b = {"kind": kind, "supply": [sup] if sup else [], "pause": lvl in (0, depth - 1), "ending": ending}
                            if blk is not None:
                                b["child"] = blk
                            blk = b
                        yield {"block": blk, "outer": False, "cancels": cancels, "chain": depth}
    # WIDE contexts: the surrounding block carries 9 .. 12 distinct state types, the nested block
    # supplies one / three of them again (or another type): after it is left - by return, exception,
    # cancellation - every one of the surrounding block's instances is back
    from hv.ctxkit import WIDE

    for width in (9, 10, 12):
        for inner_sup in (["W3"], ["W0", "W8", "A"], ["A"], WIDE[:width]):
            for hk in ("ascope", "sscope", "updated"):
                for ik in ("ascope", "sscope", "updated"):
                    for ending, cancels in (("return", 0), ("raise", 0), ("return", 1)):
                        if cancels and (hk != "ascope" or width != 9):
                            continue
                        inner_b = {"kind": ik, "supply": list(inner_sup), "pause": True, "ending": ending}
                        yield {
                            "block": {"kind": hk, "supply": [*WIDE[:width], "A"], "pause": True, "ending": "return", "child": inner_b},
                            "outer": False,
                            "cancels": cancels,
                            "probe_types": ["A", "R", *WIDE[:width]],
                        }
    if tier == "thorough":
        basic = [
            {"kind": k, "supply": ["A"], "pause": True, "ending": e}
            for k in ("ascope", "sscope", "updated")
            for e in ENDINGS
        ]
        rich_inner = [
            {"kind": "ascope", "supply": ["A"], "pause": True, "ending": "return", "disp": [{"enter": "ok", "exit": "raise", "yields": "none"}, {"enter": "ok", "exit": "raise", "yields": "none"}], "spawns": []},
            {"kind": "ascope", "supply": ["A"], "pause": True, "ending": "raise", "disp": [{"enter": "susp_raise", "exit": "ok", "yields": "none"}], "spawns": []},
            {"kind": "ascope", "supply": ["A"], "pause": True, "ending": "return", "disp": [], "spawns": [dict(SPAWN[1])]},
        ]
        for a in basic:
            for b in basic:
                for c in basic + rich_inner:
                    for cancels in (0, 1):
                        yield {"block": dict(a, child=dict(b, child=dict(c))), "outer": False, "cancels": cancels}


def explore_config(tier: str, program) -> dict:
    return {"cap": 300000}


def _blocks(b):
    while b is not None:
        yield b
        b = b.get("child")


def execute(program, ch: Chooser) -> Result:  # noqa: C901, PLR0912
    r = Run(program, ch, probes=True, spawn_probe=True, cancels=program["cancels"], batch=program.get("batch", 1), fine=program.get("fine", False))
    viols: list[dict] = []
    try:
        r.execute()
        cancelled = bool(r.w.cancelled_at)
        obs: dict = {"trace": r.w.trace, "blocks": {}}
        if r.hang or r.driver is None or not r.driver.done():
            viols.append(viol("termination", "driver-hangs", "driver finishes", r.w.trace[-5:]))
        for b in _blocks(program["block"]):
            bid = b["id"]
            pre, post = r.fps.get((bid, "pre")), r.fps.get((bid, "post"))
            if pre is None or post is None:
                continue  # block never reached / driver cancelled before
            caught = r.caught.get(bid)
            how = (
                "cancelled"
                if isinstance(caught, asyncio.CancelledError)
                else ("cleanup-failed" if r.exit_errors.get(bid) or _enter_failed(r, bid) else f"body-{b.get('ending', 'return')}")
            )
            witness = f"{b['kind']}/{how}"
            if pre["state"] != post["state"]:
                viols.append(viol("restore-state", witness, pre["state"], post["state"], block=bid, trace=r.w.trace))
            if pre["log"] != post["log"] or pre.get("log_ident") != post.get("log_ident"):
                viols.append(viol("restore-metrics-scope", witness, pre["log"], post["log"], block=bid, trace=r.w.trace))
            if r.spawn_probe:
                o_pre = r.probe_owner.get(pre.get("probe"), "never-released")
                o_post = r.probe_owner.get(post.get("probe"), "never-released")
                group_shut_down = post.get("spawn", "").startswith("error") and _pre_already_settled(r, pre, post)
                if not group_shut_down and (pre.get("spawn") != post.get("spawn") or o_pre != o_post):
                    viols.append(
                        viol(
                            "restore-task-group",
                            witness,
                            {"spawn": pre.get("spawn"), "owner": o_pre},
                            {"spawn": post.get("spawn"), "owner": o_post},
                            block=bid,
                            trace=r.w.trace,
                        )
                    )
                obs["blocks"][str(bid)] = {"caught": type(caught).__name__ if caught else None, "owner_pre": o_pre, "owner_post": o_post}
            # whatever exception left the body reaches the caller as the same object unless the
            # cleanup itself failed - or was interrupted by a task failing *during* the cleanup
            left = r.body_exc.get(bid)
            during_exit = any(
                sp["end"] == "raise" and sp.get("end_phase", ("", None))[0] == "exiting" for sp in r.all_spawned
            )
            # (the failure may also have happened in the very loop iteration in which the body
            # ended: the task group then processes it - and cancels the exiting task - while the
            # disposables are being cleaned up)
            failed_child = any(sp["end"] == "raise" for sp in r.all_spawned)
            interrupted = isinstance(caught, asyncio.CancelledError) and (during_exit or (failed_child and bool(b.get("disp"))))
            if (
                left is not None
                and not cancelled
                and not interrupted
                and not r.exit_errors.get(bid)
                and not _enter_failed(r, bid)
                and caught is not left
            ):
                viols.append(
                    viol(
                        "same-exception",
                        f"{witness}/{type(left).__name__}",
                        f"the {type(left).__name__} object that left the body",
                        f"{type(caught).__name__ if caught else None} (same object: False)",
                        block=bid,
                        trace=r.w.trace,
                    )
                )
        nontrivial = cancelled or any(
            b.get("ending", "return") != "return" or any(d["enter"] != "ok" or d["exit"] != "ok" for d in b.get("disp", [])) or any(s["kind"].startswith("raise") for s in b.get("spawns", []))
            for b in _blocks(program["block"])
        )
        kinds = "+".join(b["kind"][0] + b.get("ending", "return")[:3] for b in _blocks(program["block"]))
        outcome = f"{kinds}/c={cancelled}/caught={'+'.join(type(r.caught.get(b['id'])).__name__[:6] for b in _blocks(program['block']))}"
        viols.extend(r.library_errors())
        return Result(outcome, nontrivial, viols[:5], obs)
    finally:
        r.close()


def _enter_failed(r: Run, bid: int) -> bool:
    return any(e[0] == "d-enter-end" and e[1].startswith(f"b{bid}.") and e[2] != "ok" for e in r.events)


def _pre_already_settled(r: Run, pre: dict, post: dict) -> bool:
    """the group that owns the pre-probe was already shutting down when the post-probe was taken
    (its probe task had been cancelled by then)"""
    return post.get("pre_settled", False)
