"""C14  Retry makes exactly the allowed attempts and reports the true last outcome.

The wrapped function asks the chooser for the outcome of every call, so the DFS enumerates
exactly the reachable outcome sequences (fault sequences) for every configuration.
"""

import asyncio
import itertools
import logging

from hv import boot  # noqa: F401
from hv import vtime
from hv.core import Result, viol
from hv.vloop import VLoop
from hv.world import Chooser

from haiway import ctx  # noqa: E402
from haiway.helpers.retries import retry  # noqa: E402

ID = "C14"
TECHNIQUE = "exhaustive fault-sequence enumeration: every outcome sequence of the wrapped function (chooser-driven) x every configuration, counter-loop reference model"
RULE = (
    "per configuration (limit 1..4 x catching {default,class,tuple,set,empty tuple,empty set} x delay {None,int,float,"
    "function, function declared with *args only} x sync/async x inside/outside a scope) every reachable sequence of call outcomes "
    "over {value, caught, subclass of caught (one and two levels; unrenderable; unhashable), uncaught Exception, CancelledError, other "
    "BaseException}; plus ONE wrapper used 2-3 times in a row (every outcome sequence per use over {value, caught, subclass, uncaught}, delay function depending on the exception); long limits 6, 9, 17, 33 (65) with the first limit-2 .. limit calls failing with the caught class and every outcome sequence after that; non-trivial = at least one retry happened or a non-retryable error ended it"
)
RULE += ' Rounds 10-13: limits 3-4 in quick; long limits 6-33 (65) with forced failing prefixes; fine / huge delays (9/8192 s .. 2**20 s); overlapping calls with per-call delay functions.'
ASSUMPTIONS = [
    "virtual time.sleep / asyncio.sleep (exact dyadic delays); the wrapped call itself takes no time",
]
BOUNDS = {"quick": {"limits": [1, 2]}, "thorough": {"limits": [1, 2, 3, 4]}}
EXHAUSTIVE = {"quick": True, "thorough": True}
SAMPLE_EVERY = {"quick": 700, "thorough": 9000}


class Caught(Exception):
    pass


class SubCaught(Caught):
    pass


class DeepCaught(SubCaught):
    """two inheritance levels below the caught class"""


class UnhashableCaught(Caught):
    """a caught exception that defines __eq__ without __hash__ (e.g. a dataclass exception)"""

    def __eq__(self, other) -> bool:
        return isinstance(other, UnhashableCaught) and other.args == self.args

    __hash__ = None  # type: ignore[assignment]


class Unrelated(Exception):
    pass


class Other(Exception):
    pass


class Base(BaseException):
    pass


class BadStrCaught(Caught):
    """a caught exception that cannot be rendered: logging it must not disturb the retry"""

    def __str__(self) -> str:
        raise TypeError("cannot render")

    def __repr__(self) -> str:
        return "BadStrCaught()"


OUTCOMES = ["value", "caught", "subcaught", "other", "cancelled", "base", "badstr", "deepcaught", "unhashable"]


_MORE_UNRELATED = tuple(type(f"Unrelated{i}", (Exception,), {}) for i in range(2, 6))


def programs(tier: str):
    # LARGER caught sets (six classes, the caught family last): subclasses are still caught
    for limit in BOUNDS[tier]["limits"]:
        for catching in ("tuple6", "set6"):
            for mode in ("sync", "async"):
                yield {"limit": limit, "catching": catching, "delay": "none", "mode": mode, "scoped": False}
    for limit in BOUNDS[tier]["limits"]:
        for catching in ("default", "class", "tuple", "set", "empty-tuple", "empty-set"):
            for delay in ("none", "int", "float", "fn", "zero", "zerof", "fn-varargs", "fn-int"):
                if catching.startswith("empty") and delay not in ("none", "fn"):
                    continue
                if delay in ("fn-varargs", "fn-int") and catching != "class":
                    continue
                for mode in ("sync", "async"):
                    for scoped in (False, True):
                        yield {
                            "limit": limit,
                            "catching": catching,
                            "delay": delay,
                            "mode": mode,
                            "scoped": scoped,
                        }


    # the decorator's defaults: limit (1), catching (Exception), no delay - bare and called forms
    for mode in ("sync", "async"):
        for catching in ("default", "class"):
            for delay in ("none", "float"):
                yield {"limit": 1, "catching": catching, "delay": delay, "mode": mode, "scoped": False, "limit_default": True}
        yield {"limit": 1, "catching": "default", "delay": "none", "mode": mode, "scoped": False, "limit_default": True, "bare": True}
    yield from _reuse_programs(tier)
    # two overlapping calls through one async wrapper: each has its own attempt budget
    # every limit of the statement (1..4) in the quick tier as well, on a reduced option grid, and
    # LONG limits (6, 9, 17, 33): the first k calls fail with the caught class (k = limit-2 ..
    # limit), every outcome sequence after that - attempt counters, per-attempt delays and delay
    # function arguments far beyond the small limits
    # FINE and huge delays (9/8192 s, attempt/2048 + 1/16384 s, 2**20 + 0.5 s): exact dyadic values far
    # off the millisecond grid
    # inside a scope whose name contains formatting characters; delays given as IntEnum member /
    # float subclass instance
    for mode in ("sync", "async"):
        for name in ("retry 100%", "%s %(x)s"):
            yield {"limit": 2, "catching": "class", "delay": "none", "mode": mode, "scoped": True, "scope_name": name}
        for delay in ("intenum", "floatsub"):
            for limit in (1, 2):
                yield {"limit": limit, "catching": "class", "delay": delay, "mode": mode, "scoped": False}
    for limit in (1, 2, 4):
        for delay in ("fine", "fn-fine", "big"):
            for mode in ("sync", "async"):
                yield {"limit": limit, "catching": "class", "delay": delay, "mode": mode, "scoped": False}
    for limit in (3, 4):
        if limit in BOUNDS[tier]["limits"]:
            continue
        for catching in ("class", "tuple"):
            for delay in ("none", "float", "fn"):
                for mode in ("sync", "async"):
                    yield {"limit": limit, "catching": catching, "delay": delay, "mode": mode, "scoped": False}
    for limit in (6, 9, 17, 33) if tier == "quick" else (6, 9, 17, 33, 65):
        for forced in (limit - 2, limit - 1, limit):
            for delay in ("none", "float", "fn"):
                for mode in ("sync", "async"):
                    yield {"limit": limit, "catching": "class", "delay": delay, "mode": mode, "scoped": False, "forced": forced}
    # a retried function calling another retried function (own budgets)
    for la in (1, 2):
        for lb in (1, 2):
            for mode in ("sync", "async"):
                yield {"nested": True, "limits": [la, lb], "mode": mode}
    for limit in BOUNDS[tier]["limits"][:2]:
        for a in itertools.product(("caught", "value"), repeat=limit + 1):
            for b in itertools.product(("caught", "value", "other"), repeat=limit + 1):
                yield {"concurrent": True, "limit": limit, "seqs": [list(a), list(b)]}
                if "other" not in b:
                    # ... with a delay function (own pauses per call), also with both calls failing
                    # in the same loop iteration
                    yield {"concurrent": True, "limit": limit, "seqs": [list(a), list(b)], "cdelay": True}
                    yield {"concurrent": True, "limit": limit, "seqs": [list(a), list(b)], "cdelay": True, "batch": 2}


def explore_config(tier: str, program) -> dict:
    return {}


REUSE_OUTCOMES = ["value", "caught", "subcaught", "other"]


def _reuse_programs(tier: str):
    # ONE wrapper used several times in a row: every use has its own attempt budget, its own
    # delays (the delay function depends on the exception) and reports its own last outcome
    for mode in ("sync", "async"):
        for delay in ("none", "fn", "float"):
            for limit in (1, 2):
                uses = 3 if (limit == 1 or tier == "thorough") else 2
                yield {"reuse": True, "mode": mode, "delay": delay, "limit": limit, "uses": uses}


def _reuse(program, ch: Chooser) -> Result:  # noqa: C901, PLR0912, PLR0915
    mode, delay, limit, uses = program["mode"], program["delay"], program["limit"], program["uses"]
    vtime.reset()
    viols: list[dict] = []
    per_use: list[list[dict]] = []
    delay_calls: list[tuple] = []
    outs: list = []

    def decide():
        calls = per_use[-1]
        k = len(calls) + 1
        kind = "value" if k > limit + 2 else REUSE_OUTCOMES[ch.choose(len(REUSE_OUTCOMES), "outcome")]
        rec = {"t": vtime.now(), "kind": kind}
        calls.append(rec)
        if kind == "value":
            rec["val"] = object()
            return rec["val"]
        rec["exc"] = _make_exc(kind, k)
        raise rec["exc"]

    def delay_fn(attempt, exc):
        delay_calls.append((len(per_use) - 1, attempt, exc))
        return 0.25 * attempt + (0.5 if isinstance(exc, SubCaught) else 0.0)

    kwargs: dict = {"limit": limit, "catching": Caught}
    if delay == "fn":
        kwargs["delay"] = delay_fn
    elif delay == "float":
        kwargs["delay"] = 0.5
    loop = VLoop()
    loop.open()
    try:
        if mode == "sync":

            @retry(**kwargs)
            def fn():
                return decide()

            for _ in range(uses):
                per_use.append([])
                try:
                    outs.append(("value", fn()))
                except BaseException as exc:  # noqa: BLE001
                    outs.append(("raised", exc))
        else:

            @retry(**kwargs)
            async def afn():
                return decide()

            async def main():
                for _ in range(uses):
                    per_use.append([])
                    try:
                        outs.append(("value", await afn()))
                    except BaseException as exc:  # noqa: BLE001
                        outs.append(("raised", exc))

            task = loop.create_task(main())
            for _ in range(200):
                loop.run_ready()
                if task.done():
                    break
                grp = loop.due_group()
                if not grp:
                    break
                loop.fire(grp[0])
            if not task.done():
                viols.append(viol("termination", f"reuse/{mode}", "calls return", "pending"))
        retried = 0
        for u, calls in enumerate(per_use):
            if u >= len(outs):
                break
            exp = 0
            terminal = False
            for rec in calls:
                exp += 1
                if rec["kind"] not in ("caught", "subcaught") or exp == limit + 1:
                    terminal = True
                    break
            kinds = [c["kind"] for c in calls]
            w = f"use{u + 1}-of-{uses}/limit={limit}"
            if not terminal:
                viols.append(viol("attempts", f"reuse/too-few/{w}", f"another call after outcomes {kinds}", f"stopped after {len(calls)} calls", earlier=[[c["kind"] for c in cs] for cs in per_use[:u]]))
                continue
            if len(calls) != exp:
                viols.append(viol("attempts", f"reuse/{'too-few' if len(calls) < exp else 'too-many'}/{w}", f"{exp} calls for outcomes {kinds[:exp]}", f"{len(calls)} calls {kinds}", earlier=[[c["kind"] for c in cs] for cs in per_use[:u]]))
                continue
            final = calls[-1]
            ok = (outs[u][0] == "value" and outs[u][1] is final.get("val")) if final["kind"] == "value" else (outs[u][0] == "raised" and outs[u][1] is final.get("exc"))
            if not ok:
                viols.append(viol("last-outcome", f"reuse/{w}", f"the outcome of this use's call {len(calls)}", [outs[u][0], type(outs[u][1]).__name__]))
            retries = len(calls) - 1
            retried += retries
            want_p = []
            for k in range(1, retries + 1):
                e = calls[k - 1].get("exc")
                want_p.append({"none": 0.0, "float": 0.5, "fn": 0.25 * k + (0.5 if isinstance(e, SubCaught) else 0.0)}[delay])
            deltas = [calls[i + 1]["t"] - calls[i]["t"] for i in range(retries)]
            if deltas != want_p:
                viols.append(viol("delay", f"reuse/{delay}/{mode}/{w}", want_p, deltas, earlier=[[c["kind"] for c in cs] for cs in per_use[:u]]))
            if delay == "fn":
                mine = [(a, e) for uu, a, e in delay_calls if uu == u]
                want = [(k, calls[k - 1].get("exc")) for k in range(1, retries + 1)]
                if len(mine) != len(want) or any(a[0] != b[0] or a[1] is not b[1] for a, b in zip(mine, want)):
                    viols.append(viol("delay", f"reuse/fn-arguments/{w}", [(k, repr(e)) for k, e in want], [(k, repr(e)) for k, e in mine]))
        obs = {"kinds": [[c["kind"] for c in cs] for cs in per_use], "outs": [o[0] for o in outs]}
        return Result(f"reuse/{mode}/uses={len(outs)}/retried={min(retried, 3)}", retried > 0 and len(outs) > 1, viols, obs)
    finally:
        loop.shutdown()


def _nested(program, ch: Chooser) -> Result:
    """a retried function that calls ANOTHER retried function: each keeps its own attempt budget
    (outcomes of both chosen by the explorer)"""
    viols: list[dict] = []
    la, lb, mode = program["limits"][0], program["limits"][1], program["mode"]
    vtime.reset()
    acalls: list = []
    bcalls: list = []

    def decide(calls, limit, label):
        k = len(calls) + 1
        kind = "value" if k > limit + 2 else ("caught", "value", "other")[ch.choose(3, label)]
        calls.append(kind)
        if kind == "caught":
            raise Caught(f"{label}#{k}")
        if kind == "other":
            raise Other(f"{label}#{k}")
        return f"{label}-value"

    got: dict = {}
    loop = VLoop()
    loop.open()
    try:
        if mode == "sync":

            @retry(limit=lb, catching=Caught)
            def inner():
                return decide(bcalls, lb, "b")

            @retry(limit=la, catching=Caught)
            def outer():
                try:
                    inner_out = ("value", inner())
                except Exception as exc:  # noqa: BLE001 - the outer function handles the inner failure itself
                    inner_out = ("raised", type(exc).__name__)
                got.setdefault("inner", []).append((inner_out, len(bcalls)))
                bcalls.clear()
                return decide(acalls, la, "a")

            try:
                got["out"] = ("value", outer())
            except BaseException as exc:  # noqa: BLE001
                got["out"] = ("raised", type(exc).__name__)
        else:

            @retry(limit=lb, catching=Caught)
            async def ainner():
                return decide(bcalls, lb, "b")

            @retry(limit=la, catching=Caught)
            async def aouter():
                try:
                    inner_out = ("value", await ainner())
                except Exception as exc:  # noqa: BLE001
                    inner_out = ("raised", type(exc).__name__)
                got.setdefault("inner", []).append((inner_out, len(bcalls)))
                bcalls.clear()
                return decide(acalls, la, "a")

            async def main():
                try:
                    got["out"] = ("value", await aouter())
                except BaseException as exc:  # noqa: BLE001
                    got["out"] = ("raised", type(exc).__name__)

            task = loop.create_task(main())
            loop.run_ready()
            if not task.done():
                viols.append(viol("termination", "nested", "call returns", "pending"))
        # reference: the outer function is called until its first success / uncaught error / la + 1 calls
        exp = 0
        for kind in acalls:
            exp += 1
            if kind != "caught" or exp == la + 1:
                break
        if len(acalls) != exp:
            viols.append(viol("attempts", f"nested/outer/limit={la}", f"{exp} calls for outcomes {acalls[:exp]}", f"{len(acalls)} calls {acalls}", inner=got.get("inner")))
        elif acalls:
            want = ("value", "a-value") if acalls[-1] == "value" else ("raised", "Caught" if acalls[-1] == "caught" else "Other")
            if got.get("out") != want:
                viols.append(viol("last-outcome", "nested/outer", list(want), list(got.get("out", ())), inner=got.get("inner")))
        return Result(f"nested/{mode}/{len(acalls)}", True, viols[:3], {"outer": acalls, "inner": got.get("inner"), "out": got.get("out")})
    finally:
        loop.shutdown()


def _concurrent(program, ch: Chooser) -> Result:
    from hv.vloop import Livelock
    from hv.world import World

    limit, seqs = program["limit"], program["seqs"]
    w = World(ch, batch=program.get("batch", 1))
    viols: list[dict] = []
    cdelay = program.get("cdelay")
    try:
        calls: dict[int, list] = {0: [], 1: []}

        def delay_of(attempt, exc):
            # depends on the attempt AND on the failing call (its exception carries the caller)
            return 0.25 * attempt + (0.125 if str(exc).endswith("@1") else 0.0)

        @retry(limit=limit, catching=Caught, **({"delay": delay_of} if cdelay else {}))
        async def afn(who):
            k = len(calls[who])
            rec = {"kind": seqs[who][k] if k < len(seqs[who]) else "value", "t_start": vtime.now()}
            calls[who].append(rec)
            await w.pause(f"c{who}.{k}")
            rec["t_end"] = vtime.now()
            if cdelay and rec["kind"] != "value":
                rec["exc"] = _make_exc(rec["kind"], k)
                rec["exc"].args = (f"{rec['kind']}#{k}@{who}",)
                raise rec["exc"]
            if rec["kind"] == "value":
                rec["val"] = object()
                return rec["val"]
            rec["exc"] = _make_exc(rec["kind"], k)
            raise rec["exc"]

        got: dict = {}

        async def caller(who):
            try:
                got[who] = ("value", await afn(who))
            except BaseException as exc:  # noqa: BLE001
                got[who] = ("raised", exc)

        tasks = [w.task(caller(0), name="c0"), w.task(caller(1), name="c1")]
        try:
            w.run()
        except Livelock:
            viols.append(viol("termination", "concurrent", "calls finish", "livelock"))
        for who in (0, 1):
            exp = 0
            for kind in seqs[who] + ["value"]:
                exp += 1
                if kind != "caught" or exp == limit + 1:
                    break
            kinds = [c["kind"] for c in calls[who]]
            if len(calls[who]) != exp:
                viols.append(
                    viol("attempts", f"overlapping-calls/limit={limit}", f"caller {who}: {exp} calls", f"{len(calls[who])} calls {kinds}", trace=w.trace)
                )
            elif who in got:
                final = calls[who][-1]
                ok = (got[who][0] == "value" and got[who][1] is final.get("val")) if final["kind"] == "value" else (got[who][0] == "raised" and got[who][1] is final.get("exc"))
                if not ok:
                    viols.append(viol("last-outcome", "overlapping-calls", f"outcome of call {exp} of caller {who}", got[who][0], trace=w.trace))
            if not tasks[who].done():
                viols.append(viol("termination", "overlapping-calls", "done", "pending"))
            if cdelay and len(calls[who]) == exp:
                # exactly one pause between consecutive attempts of THIS call, equal to the delay
                # function applied to (its attempt number, its exception) - whatever the other call does
                gaps = [calls[who][i + 1]["t_start"] - calls[who][i]["t_end"] for i in range(len(calls[who]) - 1)]
                want = [0.25 * (i + 1) + (0.125 if who == 1 else 0.0) for i in range(len(calls[who]) - 1)]
                if gaps != want:
                    viols.append(viol("delay", "overlapping-calls/own-pause", {f"caller {who}": want}, gaps, trace=w.trace))
        out = f"concurrent/{len(calls[0])}+{len(calls[1])}"
        return Result(out, True, viols[:3], {"trace": w.trace, "calls": [[c["kind"] for c in calls[0]], [c["kind"] for c in calls[1]]]})
    finally:
        w.close()


def _make_exc(kind: str, k: int) -> BaseException:
    return {
        "caught": Caught,
        "subcaught": SubCaught,
        "deepcaught": DeepCaught,
        "unhashable": UnhashableCaught,
        "other": Other,
        "cancelled": asyncio.CancelledError,
        "base": Base,
        "badstr": BadStrCaught,
    }[kind](f"{kind}#{k}")


def execute(program, ch: Chooser) -> Result:  # noqa: C901, PLR0912, PLR0915
    if program.get("concurrent"):
        return _concurrent(program, ch)
    if program.get("nested"):
        return _nested(program, ch)
    if program.get("reuse"):
        return _reuse(program, ch)
    limit, catching, delay, mode, scoped = (
        program["limit"],
        program["catching"],
        program["delay"],
        program["mode"],
        program["scoped"],
    )
    vtime.reset()
    viols: list[dict] = []
    calls: list[dict] = []  # {"t":, "kind":, "exc"/"val":, "args_ok":}
    delay_calls: list[tuple] = []
    arg_obj, kw_obj = object(), object()

    def decide(args, kwargs):
        k = len(calls) + 1
        if k <= program.get("forced", 0):
            kind = "caught"  # long-limit family: the first `forced` calls fail with the caught class
        elif k > limit + 3:
            # far beyond the allowed limit+1 calls: stop offering failures so that the choice
            # tree stays finite (the surplus calls are reported by the attempts clause)
            kind = "value"
        else:
            kind = OUTCOMES[ch.choose(len(OUTCOMES), "outcome")]
        rec = {
            "t": vtime.now(),
            "kind": kind,
            "args_ok": len(args) == 1 and args[0] is arg_obj and list(kwargs) == ["kw"] and kwargs["kw"] is kw_obj,
        }
        calls.append(rec)
        if kind == "value":
            rec["val"] = object()
            return rec["val"]
        rec["exc"] = _make_exc(kind, k)
        raise rec["exc"]

    def delay_fn(attempt, exc):
        delay_calls.append((attempt, exc))
        return 0.25 * attempt

    kwargs: dict = {"limit": limit}
    if program.get("limit_default"):
        kwargs = {}  # the decorator's own default: one retry
    if catching == "class":
        kwargs["catching"] = Caught
    elif catching == "tuple":
        kwargs["catching"] = (Unrelated, Caught)
    elif catching == "set":
        kwargs["catching"] = {Unrelated, Caught}
    elif catching == "tuple6":
        kwargs["catching"] = (Unrelated, *_MORE_UNRELATED, Caught)  # six classes
    elif catching == "set6":
        kwargs["catching"] = {Unrelated, *_MORE_UNRELATED, Caught}
    elif catching == "empty-tuple":
        kwargs["catching"] = ()  # nothing is caught: every exception ends the call
    elif catching == "empty-set":
        kwargs["catching"] = set()
    if delay == "int":
        kwargs["delay"] = 2
    elif delay == "float":
        kwargs["delay"] = 0.5
    elif delay == "fn":
        kwargs["delay"] = delay_fn
    elif delay == "fn-int":
        # a delay function that returns whole numbers (ints), e.g. attempt * 2
        def delay_fn_int(attempt, exc):
            delay_calls.append((attempt, exc))
            return attempt * 2

        kwargs["delay"] = delay_fn_int
    elif delay == "fn-varargs":
        # a delay function that declares a single var-positional parameter (a forwarding wrapper)
        kwargs["delay"] = lambda *details: delay_fn(*details)
    elif delay == "intenum":
        import enum as _enum

        kwargs["delay"] = _enum.IntEnum("Backoff", {"SHORT": 2}).SHORT  # an int subclass instance
    elif delay == "floatsub":
        kwargs["delay"] = type("Seconds", (float,), {})(0.5)  # a float subclass instance
    elif delay == "fine":
        kwargs["delay"] = 1 / 1024 + 1 / 8192  # far off the millisecond grid, exact in binary
    elif delay == "big":
        kwargs["delay"] = float(2**20) + 0.5
    elif delay == "fn-fine":

        def delay_fn_fine(attempt, exc):
            delay_calls.append((attempt, exc))
            return attempt / 2048 + 1 / 16384

        kwargs["delay"] = delay_fn_fine
    elif delay == "zero":
        kwargs["delay"] = 0
    elif delay == "zerof":
        kwargs["delay"] = 0.0

    got: dict = {}
    loop = VLoop()
    loop.open()
    try:
        if mode == "sync":

            def fn(*a, **k):
                return decide(a, k)

            fn = retry(fn) if program.get("bare") else retry(**kwargs)(fn)

            def run_sync():
                try:
                    got["out"] = ("value", fn(arg_obj, kw=kw_obj))
                except BaseException as exc:  # noqa: BLE001
                    got["out"] = ("raised", exc)

            if scoped:
                with ctx.scope(program.get("scope_name", "retry-scope")):
                    run_sync()
            else:
                run_sync()
        else:

            async def afn(*a, **k):
                return decide(a, k)

            afn = retry(afn) if program.get("bare") else retry(**kwargs)(afn)

            async def main():
                try:
                    if scoped:
                        async with ctx.scope(program.get("scope_name", "retry-scope")):
                            got["out"] = ("value", await afn(arg_obj, kw=kw_obj))
                    else:
                        got["out"] = ("value", await afn(arg_obj, kw=kw_obj))
                except BaseException as exc:  # noqa: BLE001
                    got["out"] = ("raised", exc)

            task = loop.create_task(main())
            for _ in range(100 + 3 * limit):
                loop.run_ready()
                if task.done():
                    break
                grp = loop.due_group()
                if not grp:
                    break
                loop.fire(grp[0])
            if not task.done():
                viols.append(viol("termination", mode, "call returns", "pending"))
        # ---- reference: counter loop ----
        caught_kinds = {"caught", "subcaught", "deepcaught", "badstr", "unhashable"} | ({"other"} if catching == "default" else set())
        if catching.startswith("empty"):
            caught_kinds = set()
        if delay == "fn-varargs":
            delay = "fn"  # same expectations as the two-parameter delay function
        exp_calls = 0
        terminal = False
        for rec in calls:
            exp_calls += 1
            if rec["kind"] == "value" or rec["kind"] not in caught_kinds or exp_calls == limit + 1:
                terminal = True
                break
        kinds = [c["kind"] for c in calls]
        last = calls[exp_calls - 1] if calls else None
        if not terminal:
            viols.append(
                viol("attempts", f"too-few/limit={limit}", f"another call after outcomes {kinds}", f"stopped after {len(calls)} calls")
            )
            exp_calls = -1
        elif len(calls) != exp_calls:
            viols.append(
                viol("attempts", f"too-many/limit={limit}", f"{exp_calls} calls for outcomes {kinds[:exp_calls]}", f"{len(calls)} calls {kinds}")
            )
        if "out" in got and calls:
            final = calls[-1]
            if len(calls) == exp_calls:
                if final["kind"] == "value":
                    ok = got["out"][0] == "value" and got["out"][1] is final["val"]
                else:
                    ok = got["out"][0] == "raised" and got["out"][1] is final["exc"]
                if not ok:
                    viols.append(
                        viol(
                            "last-outcome",
                            final["kind"],
                            f"the outcome of call {len(calls)} itself",
                            [got["out"][0], type(got["out"][1]).__name__, str(got["out"][1])[:60]],
                        )
                    )
        if any(not c["args_ok"] for c in calls):
            viols.append(viol("arguments", "changed", "same args each attempt", "differs"))
        # pauses: exactly one per retry
        retries = len(calls) - 1
        exp_pauses: list[float] = []
        for k in range(1, retries + 1):
            exp_pauses.append({"none": 0.0, "int": 2.0, "intenum": 2.0, "floatsub": 0.5, "float": 0.5, "fn": 0.25 * k, "fn-int": 2.0 * k, "zero": 0.0, "zerof": 0.0, "fine": 1 / 1024 + 1 / 8192, "big": float(2**20) + 0.5, "fn-fine": k / 2048 + 1 / 16384}[delay])
        if len(calls) == exp_calls:
            deltas = [calls[i + 1]["t"] - calls[i]["t"] for i in range(retries)]
            if deltas != exp_pauses:
                viols.append(viol("delay", f"{delay}/{mode}", exp_pauses, deltas))
            if mode == "sync":
                logged = list(vtime.CLOCK.sleeps)
                want = [p for p in exp_pauses] if delay != "none" else []
                if logged != want:
                    viols.append(viol("delay", f"sleep-calls/{delay}/sync", want, logged))
            if delay in ("fn", "fn-int", "fn-fine"):
                want_args = [(k, calls[k - 1].get("exc")) for k in range(1, retries + 1)]
                if len(delay_calls) != len(want_args) or any(
                    a[0] != b[0] or a[1] is not b[1] for a, b in zip(delay_calls, want_args)
                ):
                    viols.append(
                        viol("delay", "fn-arguments", [(k, repr(e)) for k, e in want_args], [(k, repr(e)) for k, e in delay_calls])
                    )
        obs = {
            "kinds": kinds,
            "out": [got.get("out", ("none",))[0], type(got.get("out", (None, None))[1]).__name__],
            "times": [c["t"] - vtime.START for c in calls],
            "sleeps": list(vtime.CLOCK.sleeps),
        }
        nontrivial = retries > 0 or (last is not None and last["kind"] in ("other", "cancelled", "base"))
        outcome = f"{mode}/calls={len(calls)}/last={kinds[-1] if kinds else '-'}"
        return Result(outcome, nontrivial, viols, obs)
    finally:
        loop.shutdown()
