"""C01  Scope state lookup follows lexical nesting (innermost supplier wins).

The space is the program grammar: every ordered forest of blocks up to N nodes, every block kind
and supply, a probe at every position, both probe orders.  Enumerated completely.
"""

import asyncio
import itertools

from hv import boot  # noqa: F401
from hv.core import Result, task_failure, viol
from hv.ctxkit import (
    SUPPLY,
    disposables_for,
    expected_state,
    forest_shapes,
    label_forest,
    make_states,
    probe_state,
)
from hv.vloop import VLoop
from hv.world import Chooser

from haiway import ctx  # noqa: E402

ID = "C01"
TECHNIQUE = "exhaustive enumeration of the scope-program grammar (all forests up to N blocks x kinds x supplies x probe positions) executed on the real context, environment-stack reference interpreter"
RULE = (
    "all ordered forests of blocks with <= N nodes; block kind in {async scope, sync scope, "
    "updated, async scope fed by disposables, async scope fed partly directly and partly by disposables (<= 2 blocks)}; supply from an 8-element alphabet over {A, A2(A), "
    "R(required attr), G[int]} (+ instances value-equal to the enclosing one, + U with a required "
    "union-typed attribute, in a 1-3 block sub-family); probe (ctx.state(T) and ctx.state(T, default) for every T) at "
    "every position, both probe orders; non-trivial = some type is supplied at two nesting levels "
    "or by two instances in one block, or a subclass is supplied while the base is asked; chains of 5-7 nested blocks over 3 supplies; a type M whose only attribute without default accepts MISSING; "
    "extension family (<= 2 blocks): every block additionally ends by return / exception / "
    "cancellation and is built either inline or ahead of time (at program start) and entered later"
)
RULE += ' Rounds 10-11: WIDE contexts (a block carrying 8 / 9 / 12 distinct state types W0..W11, nested blocks and a later sibling supplying some of them again).'
ASSUMPTIONS = [
    "lookups inside a top-level `ctx.updated` block outside any scope: MissingContext or the "
    "environment answer are both accepted (the statement leaves it open)",
]
BOUNDS = {
    "quick": {"N": 3, "kinds": 4, "supplies": 8, "note": "3-node forests with alternating probe order"},
    "thorough": {"N": 4, "kinds": 3, "supplies": 4, "plus": "N<=3 full alphabets"},
}
EXHAUSTIVE = {"quick": True, "thorough": True}
SAMPLE_EVERY = {"quick": 30000, "thorough": 60000}

KINDS = ["ascope", "sscope", "updated", "dscope"]
TYPES = ("A", "A2", "R", "G", "U", "F", "M", "IT", "N")
from hv.ctxkit import WIDE  # noqa: E402

# supplies 100.. : WIDE contexts (9 / 12 distinct types in one block; one / three of them again)
WIDE_SUPPLY = [[*WIDE[:9], "A"], list(WIDE), ["W3"], ["W0", "W8", "A"], ["W11", "R"], [*WIDE[:8]], ["W8"], ["TA"], ["TB"], ["TA", "TB"], ["TB", "A"]]


def _forests(n_max: int, kinds: list[str], supplies: list[int]):
    alphabet = [(k, s) for k in kinds for s in supplies]
    for n in range(0, n_max + 1):
        for shape in forest_shapes(n):
            for labels in itertools.product(alphabet, repeat=n):
                yield label_forest(shape, [list(x) for x in labels])


def programs(tier: str):
    k = 0
    for f in _forests(3, KINDS, list(range(8))):
        k += 1
        three = len(f) == 3 or any(len(b["c"]) == 2 or any(c["c"] for c in b["c"]) for b in f) or (
            len(f) == 2 and any(b["c"] for b in f)
        )
        if tier == "quick" and three:
            # 3-node forests: probe orders alternate in the quick tier (both in thorough)
            yield {"forest": f, "order": "nd-first" if k % 2 else "d-first"}
            continue
        for order in ("nd-first", "d-first"):
            yield {"forest": f, "order": order}
    # extension: blocks left by an exception or a (self-inflicted) cancellation, and blocks whose
    # context manager object was built earlier (at program start, outside everything) and is only
    # entered at its position in the forest
    ext_sup = (0, 1, 2, 5)
    ext_alpha = [
        [k, s_, e, p_]
        for k in KINDS
        for s_ in ext_sup
        for e in ("return", "raise", "cancel")
        for p_ in (False, True)
    ]
    small_alpha = [a for a in ext_alpha if a[1] in (1, 2) or (a[1] == 0 and a[0] == "updated")]
    for a in ext_alpha:
        yield {"forest": [{"l": list(a), "c": []}], "order": "nd-first"}
    for a in small_alpha:
        for b in small_alpha:
            if a[2] == "return" and not a[3] and b[2] == "return" and not b[3]:
                continue  # covered by the base family
            for shape in forest_shapes(2):
                k += 1
                yield {"forest": label_forest(shape, [list(a), list(b)]), "order": "nd-first" if k % 2 else "d-first"}
    # a block prepared inside the FIRST top-level block and entered elsewhere: as a later sibling
    # (outside any scope), nested in a later sibling, or nested deeper inside the first block
    for fk in ("ascope", "sscope", "updated"):
        for fs in (1, 2, 5):
            for pk in ("updated", "sscope", "ascope"):
                for ps in (0, 1, 2):
                    first = [fk, fs]
                    prep = [pk, ps, "return", "in-first"]
                    for mk in ("ascope", "updated"):
                        for ms in (1, 2):
                            k += 1
                            order = "nd-first" if k % 2 else "d-first"
                            yield {"forest": [{"l": first, "c": []}, {"l": [mk, ms], "c": [{"l": prep, "c": []}]}], "order": order}
                            yield {"forest": [{"l": first, "c": [{"l": [mk, ms], "c": [{"l": prep, "c": []}]}]}], "order": order}
                    yield {"forest": [{"l": first, "c": []}, {"l": prep, "c": []}], "order": "nd-first"}
    # ONE prepared ctx.updated(...) object entered twice, one after the other, inside different
    # enclosing blocks: every use sits on top of the block it is entered in
    for k1 in ("ascope", "sscope", "updated"):
        for k2 in ("ascope", "sscope", "updated"):
            for s1, s2 in ((1, 1), (1, 2), (5, 1), (0, 1)):
                yield {"forest": [{"l": [k1, s1], "c": [{"l": ["updated", 2, "return", "shared"], "c": []}]}, {"l": [k2, s2], "c": [{"l": ["updated", 2, "return", "shared"], "c": []}]}], "order": "nd-first"}
    # value-equal re-supplies and a type whose default construction fails with an ExceptionGroup
    for sup in (8, 9, 10, 11, 12, 13, 14, 15, 16):
        for kind in KINDS:
            yield {"forest": [{"l": [kind, sup], "c": []}], "order": "nd-first"}
            for okind in KINDS:
                for osup in (1, 4, 5):
                    yield {"forest": [{"l": [okind, osup], "c": [{"l": [kind, sup], "c": []}]}], "order": "d-first"}
                    yield {"forest": [{"l": [okind, osup], "c": [{"l": ["updated", 0], "c": [{"l": [kind, sup], "c": []}]}]}], "order": "nd-first"}
    # mixed blocks: an async scope given its first state directly and the rest through
    # disposables (all directly, with disposables that yield nothing, when one type would
    # otherwise come from both sides - which side wins is not stated)
    for n in (1, 2):
        for shape in forest_shapes(n):
            for labels in itertools.product([(k_, s_) for k_ in [*KINDS, "mscope"] for s_ in range(len(SUPPLY))], repeat=n):
                if not any(lb[0] == "mscope" for lb in labels):
                    continue
                k += 1
                yield {"forest": label_forest(shape, [list(x) for x in labels]), "order": "nd-first" if k % 2 else "d-first"}
    # deep chains: 5-7 blocks nested in one another, each supplying from a small alphabet (lookups
    # at every level; e.g. an implementation that compacts long chains of scope states)
    for depth in (5, 6, 7):
        for kinds in (("ascope",) * depth, ("updated", "ascope", "sscope", "dscope", "updated", "ascope", "updated")[:depth]):
            for sups in itertools.product((1, 2, 5), repeat=depth):
                if depth == 7 and (len(set(sups)) > 2 or tier == "quick"):
                    continue
                node = None
                for kind_, s_ in reversed(list(zip(kinds, sups))):
                    node = {"l": [kind_, s_], "c": [node] if node else []}
                k += 1
                yield {"forest": [node], "order": "nd-first" if k % 2 else "d-first"}
    # WIDE contexts: a block carrying 8 / 9 / 12 distinct state types, blocks nested in it (and a
    # later sibling) supplying some of them again - lookups at every position, all block kinds
    for outer_s in (100, 101, 105):
        for ok in ("ascope", "sscope", "updated", "dscope"):
            for inner_s in (102, 103, 104, 106, 1):
                for ik in ("ascope", "updated", "dscope"):
                    k += 1
                    yield {"forest": [{"l": [ok, outer_s], "c": [{"l": [ik, inner_s], "c": []}]}], "order": "nd-first" if k % 2 else "d-first", "wide": True}
                    yield {"forest": [{"l": [ok, outer_s], "c": [{"l": [ik, inner_s], "c": [{"l": ["updated", 106], "c": []}]}, {"l": [ik, 102], "c": []}]}], "order": "d-first", "wide": True}
    # two distinct state classes that share module and qualified name: still two types
    for ok in ("ascope", "sscope", "updated", "dscope"):
        for outer_s in (107, 108, 109):
            for ik in ("ascope", "updated", "dscope"):
                for inner_s in (107, 108, 110):
                    k += 1
                    yield {"forest": [{"l": [ok, outer_s], "c": [{"l": [ik, inner_s], "c": []}]}], "order": "nd-first" if k % 2 else "d-first", "wide": "twin"}
    if tier == "thorough":
        n4 = 0
        for shape in forest_shapes(4):
            for labels in itertools.product(
                [(k, s) for k in ("ascope", "updated", "dscope") for s in (1, 3, 4, 5)], repeat=4
            ):
                n4 += 1
                yield {
                    "forest": label_forest(shape, [list(x) for x in labels]),
                    "order": "nd-first" if n4 % 2 else "d-first",
                }


def explore_config(tier: str, program) -> dict:
    return {}


def execute(program, ch: Chooser) -> Result:  # noqa: C901, PLR0915
    forest, order = program["forest"], program["order"]
    loop = VLoop()
    loop.open()
    viols: list[dict] = []
    probes: list = []
    supplied: dict[int, str] = {}
    keep: list = []
    counter = itertools.count()
    stats = {"shadow": False, "dup": False, "sub": False, "prep": False, "abnormal": False, "equal": False}

    def probe(pos: str, env: list[dict], in_scope: bool, soft_root: bool) -> None:
        types_ = TYPES if not program.get("wide") else ((*TYPES[:4], *WIDE) if program["wide"] is True else ("A", "R", "TA", "TB"))
        got = probe_state(supplied, order, types=types_)
        exp = expected_state(env, in_scope, types=types_)
        for k in exp:
            if got[k] != exp[k]:
                if soft_root and got[k] == ("MissingContext",):
                    continue
                viols.append(
                    viol(
                        "lookup",
                        f"{k.split('/')[1]}:{exp[k][0]}->{got[k][0]}",
                        {k: list(exp[k])},
                        {k: list(got[k])},
                        position=pos,
                    )
                )
        probes.append((pos, {k: list(v) for k, v in got.items()}))

    class BodyErr(Exception):
        pass

    rt: dict[int, dict] = {}
    shared: dict = {}
    in_first: list = []

    def build(b):
        kind, sidx = b["l"][0], b["l"][1]
        r = rt[id(b)]
        if kind in ("ascope", "sscope"):
            return ctx.scope(r["label"], *r["states"])
        if kind == "updated":
            return ctx.updated(*r["states"])
        if kind == "mscope":
            sts = list(r["states"])
            direct, rest = sts[:1], sts[1:]
            if {type(x) for x in direct} & {type(x) for x in rest}:
                direct, rest = sts, []
            lazy = int(r["label"][1:]) % 2 == 1
            ds = disposables_for(rest, lazy=lazy) if (rest or not lazy) else []
            return ctx.scope(r["label"], *direct, disposables=ds)
        # every other disposable-fed scope yields its states as one-shot generators
        return ctx.scope(r["label"], disposables=disposables_for(r["states"], lazy=int(r["label"][1:]) % 2 == 1))

    def prepare(blocks, enclosing_a: str | None = None):
        for b in blocks:
            label = f"b{next(counter)}"
            raw_names = SUPPLY[b["l"][1]] if b["l"][1] < 100 else WIDE_SUPPLY[b["l"][1] - 100]
            states = make_states(raw_names, label)
            names = []
            idents = []
            for i, (st, nm) in enumerate(zip(list(states), raw_names)):
                ident = f"{label}.{i}"
                if nm == "A=":
                    from hv.ctxkit import A as _A

                    st = _A(tag=enclosing_a if enclosing_a is not None else "free")
                    states[i] = st
                    ident += "=equal-to-enclosing"
                    nm = "A"
                    stats["equal"] = True
                names.append(nm)
                idents.append(ident)
                supplied[id(st)] = ident  # identity label (independent of the value)
            keep.extend(states)
            rt[id(b)] = {"label": label, "states": states, "names": names, "idents": idents, "cm": None}
            inner_a = enclosing_a
            for st, nm in zip(states, names):
                if nm == "A":
                    inner_a = st.tag
            if len(b["l"]) > 3 and b["l"][3] == "shared":
                # all blocks marked "shared" use one and the same context manager object (and
                # therefore the same supplied instances)
                if "cm" not in shared:
                    shared["cm"] = build(b)
                    shared["rt"] = rt[id(b)]
                else:
                    for st in states:
                        supplied.pop(id(st), None)
                    rt[id(b)] = dict(shared["rt"])
                rt[id(b)]["cm"] = shared["cm"]
                stats["prep"] = True
            elif len(b["l"]) > 3 and b["l"][3] == "in-first":
                in_first.append(b)  # built later: inside the first top-level block (see run)
                stats["prep"] = True
            elif len(b["l"]) > 3 and b["l"][3]:
                rt[id(b)]["cm"] = build(b)  # built now, entered later
                stats["prep"] = True
            prepare(b["c"], inner_a)

    async def run(blocks, env: list[dict], in_scope: bool, soft_root: bool, path: str):
        probe(f"{path}:pre", env, in_scope, soft_root)
        for i, b in enumerate(blocks):
            kind = b["l"][0]
            ending = b["l"][2] if len(b["l"]) > 2 else "return"
            r = rt[id(b)]
            level: dict[str, str] = {}
            for ident, nm in zip(r["idents"], r["names"]):
                if nm in level:
                    stats["dup"] = True
                level[nm] = ident
            if any(nm in lv for lv in env for nm in level):
                stats["shadow"] = True
            if "A2" in level and "A" not in level:
                stats["sub"] = True
            env2 = [*env, level]
            here = f"{path}/{i}"
            cm = r["cm"] if r["cm"] is not None else build(b)
            soft2 = (soft_root or not in_scope) if kind == "updated" else False

            async def body():
                if path == "" and i == 0:
                    # context managers prepared INSIDE this first block, entered wherever their
                    # block sits (a sibling scope, a nested one, outside): they sit on top of the
                    # state current where they are entered, not where they were built
                    for pb in in_first:
                        rt[id(pb)]["cm"] = build(pb)
                await run(b["c"], env2, True, soft2, here)
                if ending == "raise":
                    raise BodyErr()
                if ending == "cancel":
                    asyncio.current_task().cancel()
                    await asyncio.sleep(0)

            try:
                if kind in ("ascope", "dscope", "mscope"):
                    async with cm:
                        await body()
                else:
                    with cm:
                        await body()
            except BodyErr:
                stats["abnormal"] = True
            except asyncio.CancelledError:
                stats["abnormal"] = True
                asyncio.current_task().uncancel()
            probe(f"{here}:post", env, in_scope, soft_root)

    try:
        prepare(forest)
        task = loop.create_task(run(forest, [], False, False, ""))
        loop.run_ready()
        if not task.done():
            raise RuntimeError("C01 driver did not finish")
        fail = task_failure(task)
        if fail is not None:
            viols.append(viol("driver", fail.split("(")[0][:40], "program runs", fail))
        nontrivial = stats["shadow"] or stats["dup"] or stats["sub"] or stats["prep"] or stats["abnormal"] or stats["equal"]
        outcome = f"shadow={stats['shadow']}/dup={stats['dup']}/sub={stats['sub']}/prep={stats['prep']}/abn={stats['abnormal']}/probes={min(len(probes), 9)}"
        return Result(outcome, nontrivial, viols[:4], {"probes": probes[:12]}, steps=len(probes) + 2 * next(counter))
    finally:
        loop.shutdown()
