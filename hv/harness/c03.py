"""C03  Tasks inherit a context snapshot and never observe each other's scopes.

A root task and 1-2 further tasks (started through ctx.spawn or plain create_task at a chosen
position of their starter's script) each run a straight-line script over {enter block, exit
block}; after every operation the task probes its own context and pauses.  The controller
explores every interleaving; each probe must equal the task's own reference environment.
"""

import asyncio
import itertools

from hv import boot  # noqa: F401
from hv.core import Result, viol
from hv.ctxkit import expected_state, make_states, probe_state
from hv.vloop import Livelock
from hv.world import Chooser, World

from haiway import ctx  # noqa: E402

ID = "C03"
TECHNIQUE = "stateless exploration (DFS, prefix replay) of every interleaving of 2-3 tasks running scope scripts on the real context; per-task reference environment"
RULE = (
    "root task + 1-2 tasks started by ctx.spawn / create_task at every position of the starter's "
    "script; scripts = all well-nested sequences up to length L over {enter (sync scope [A], "
    "update [A, A'], async scope [A], update [R]), exit, use a shared prepared update}; sub-families: updates whose "
    "states are value-equal across tasks ([A, R] together / [A] alone), and an update supplying the very instance the "
    "shared prepared update supplies; probe after every step and inside every scope's completion handler (sees the declaration position); every interleaving; "
    "non-trivial = two tasks are alive at the same time and at least one of them enters a block "
    "after the other was started"
)
RULE += ' Round 19: one task nesting 18 / 24 blocks next to its probing parent.'
RULE += ' Round 16: the two-task family (L <= 2) with every synchronous block left with an exception.'
RULE += ' Rounds 10-13: DEEP scripts (one task nests 4-12 (17) blocks next to observers); scopes whose only state comes from a disposable; several spawns into one scope from different positions / tasks, two tasks stepping in one loop iteration, the root running its script in one step.'
ASSUMPTIONS = [
    "scripts are well nested; blocks still open at the end of a script are closed in LIFO order",
    "a task started by plain create_task inherits the context (asyncio contract)",
]
BOUNDS = {
    "quick": {"two_tasks_L": 2, "three_tasks_L": 1},
    "thorough": {"two_tasks_L": 3, "three_tasks_L": 2, "note": "3 tasks with L=2 over {sync scope, update} only"},
}
EXHAUSTIVE = {"quick": True, "thorough": True}
SAMPLE_EVERY = {"quick": 9000, "thorough": 300000}

# ("updated", "A") supplies TWO instances of A in one call (the last one wins)
BLOCKS = [("sscope", "A"), ("updated", "A"), ("ascope", "A"), ("updated", "R"), ("prepared", "R"), None,
          # ops 6 / 7 (family "equal" only): updates whose states are VALUE-EQUAL across tasks and
          # uses (fresh instances with the same field values): [A, R] together, and [A] alone
          ("updated", "AR="), ("updated", "A="),
          # op 8 (family "same-instance"): an update supplying the very instance the shared prepared
          # update (op 5) supplies - so that the shared update is entered where its element is
          # already current
          ("updated", "R!"),
          # ops 9 / 10 (family "disposables"): an async scope WITHOUT positional state whose only
          # state is yielded by a disposable
          ("dscope", "A"), ("dscope", "R"),
          # ops 11 / 12 (family "twins"): updates supplying two DISTINCT state classes that share
          # module and qualified name
          ("updated", "TA"), ("updated", "TB")]
# op 5 = "use the shared prepared update": `with prepared_update: probe` in one step (no suspension
# inside, so uses never overlap); the object was built by the root at its start and may be used by
# every task, any number of times - each use must sit on top of the *user's* current state
# block 4 = a sync scope object supplying [R] that the ROOT task built at its very start (outside
# everything); only the first child may enter it (once): a scope prepared in one place / task and
# entered in another must still sit on top of the state of the task that enters it


def scripts(L: int, with_prepared: bool = False, allowed: tuple | None = None, shared: bool = False):
    """well-nested op sequences of length <= L; op = block index (enter) or -1 (exit)"""
    out = [[]]

    def go(prefix, depth):
        if len(prefix) == L:
            return
        for b in (allowed if allowed is not None else range(5)):
            if b == 4 and (not with_prepared or 4 in prefix):
                continue
            s = [*prefix, b]
            out.append(s)
            go(s, depth + 1)
        if prefix.count(5) < 1 and (allowed is None or shared):
            s = [*prefix, 5]
            out.append(s)
            go(s, depth)
        if depth > 0:
            s = [*prefix, -1]
            out.append(s)
            go(s, depth - 1)

    go([], 0)
    return out


def programs(tier: str):
    b = BOUNDS[tier]
    s2 = scripts(b["two_tasks_L"])
    s2p = scripts(b["two_tasks_L"], with_prepared=True)
    if b["two_tasks_L"] >= 3:
        # length-3 scripts without the shared-update op (it is covered up to length 2)
        s2 = [sc for sc in s2 if len(sc) <= 2 or 5 not in sc]
        s2p = [sc for sc in s2p if len(sc) <= 2 or 5 not in sc]
    for root in s2:
        for child in s2p:
            if not root and not child:
                continue
            for pos in range(len(root) + 1):
                for how in ("spawn", "create"):
                    yield {"scripts": [root, child], "starts": [[0, pos, how]]}
    # family "exit_exc": the synchronous blocks of every task are left WITH AN EXCEPTION (a failing
    # body whose error the task handles right outside the block) while the other task lives on
    for root in scripts(2):
        for child in scripts(2):
            if not any(op in (0, 1, 3) for op in root + child):
                continue
            for pos in range(len(root) + 1):
                for how in ("spawn", "create"):
                    yield {"scripts": [root, child], "starts": [[0, pos, how]], "exit_exc": True}
    # family "equal": two / three tasks deriving value-equal updates from one shared scope state
    eq = scripts(2, allowed=(0, 6, 7))
    for root in eq:
        for child in eq:
            if not any(op in (6, 7) for op in root + child):
                continue
            for pos in range(len(root) + 1):
                for how in ("spawn", "create"):
                    yield {"scripts": [root, child], "starts": [[0, pos, how]]}
    same = scripts(2, allowed=(3, 8), shared=True)
    for root in same:
        for child in same:
            if 5 not in root + child or 8 not in root + child:
                continue
            for pos in range(len(root) + 1):
                for how in ("spawn", "create"):
                    yield {"scripts": [root, child], "starts": [[0, pos, how]]}
    eq1 = scripts(1, allowed=(6, 7))
    for c1 in eq1:
        for c2 in eq1:
            if c1 and c2:
                yield {"scripts": [[0], c1, c2], "starts": [[0, 1, "spawn"], [0, 1, "create"]]}
    s3 = scripts(1)
    s3p = scripts(1, with_prepared=True)
    if b["three_tasks_L"] >= 2:
        # three tasks with longer scripts: blocks restricted to {sync scope [A], update [A]}
        small = [sc for sc in scripts(2) if all(op in (-1, 0, 1) for op in sc)]
        for root in small:
            for c1 in small:
                for c2 in small:
                    for starter2 in (0, 1):
                        n = len(root) if starter2 == 0 else len(c1)
                        for pos1 in range(len(root) + 1):
                            for pos2 in range(n + 1):
                                yield {
                                    "scripts": [root, c1, c2],
                                    "starts": [[0, pos1, "create" if (pos1 + pos2) % 2 else "spawn"], [starter2, pos2, "spawn" if (pos1 + pos2) % 2 else "create"]],
                                }
    for root in s3:
        for c1 in s3p:
            for c2 in s3:
                for starter2 in (0, 1):
                    n = len(root) if starter2 == 0 else len(c1)
                    for pos1 in range(len(root) + 1):
                        for pos2 in range(n + 1):
                            for how in ("spawn", "create"):
                                yield {
                                    "scripts": [root, c1, c2],
                                    "starts": [[0, pos1, how], [starter2, pos2, how]],
                                }
    yield from _deep_programs(tier)


def _deep_programs(tier: str):
    """one task nests 4..6 (8) blocks while its parent / a sibling keep probing: an implementation
    that layers or compacts the scope state beyond a few levels must not let the deep task's
    blocks show in the others (every interleaving)"""
    for d in (4, 5, 6) if tier == "quick" else (4, 5, 6, 8):
        for pattern in ((1,), (1, 3), (0, 1, 3), (3, 0)):
            deep = [pattern[i % len(pattern)] for i in range(d)] + [-1] * d
            for root, pos in (([0, 1, -1], 1), ([0, 1, -1], 2), ([1, 3], 2)):
                for how in ("spawn", "create"):
                    yield {"scripts": [root, deep], "starts": [[0, pos, how]], "deep": d}
            if d <= 5:
                # a sibling observer next to the deep task
                yield {"scripts": [[0], deep, [1, -1]], "starts": [[0, 1, "spawn"], [0, 1, "create"]], "deep": d}
    # VERY deep: one task nests 18 / 24 blocks next to its (probing) parent
    for d in (18, 24):
        for pattern in ((1, 3), (0, 1, 3)):
            deep = [pattern[i % len(pattern)] for i in range(d)] + [-1] * d
            for how in ("spawn", "create"):
                yield {"scripts": [[2], deep], "starts": [[0, 1, how]], "deep": d}
    # scopes whose only state comes from a disposable (no positional state), in tasks sharing one
    # enclosing scope: what a disposable yields belongs to that scope alone
    ds = scripts(2, allowed=(0, 1, 9, 10))
    for root in ds:
        for child in ds:
            if not any(op in (9, 10) for op in root + child):
                continue
            for pos in range(len(root) + 1):
                yield {"scripts": [root, child], "starts": [[0, pos, "spawn" if (pos + len(child)) % 2 else "create"]]}
    for c1 in ([9], [10], [9, -1], [9, 1]):
        for c2 in ([9], [10], [1], []):
            yield {"scripts": [[0], c1, c2], "starts": [[0, 1, "spawn"], [0, 1, "create"]]}
    # SEVERAL spawns into one async scope from different positions / by different tasks (each child
    # starts from the state visible where IT was spawned), also with two tasks taking their step
    # in the same loop iteration
    for root, starts in (
        ([2, 1, 3], [[0, 1, "spawn"], [0, 2, "spawn"]]),
        ([2, 1, 3], [[0, 2, "spawn"], [0, 3, "spawn"]]),
        ([2, 1, 3], [[0, 1, "spawn"], [0, 3, "spawn"]]),
        ([2, 3], [[0, 2, "spawn"], [0, 1, "spawn"]]),
        ([2, 1, -1], [[0, 2, "spawn"], [0, 3, "spawn"]]),
        ([2], [[0, 1, "spawn"], [1, 1, "spawn"]]),
        ([2, 1], [[0, 1, "spawn"], [1, 2, "spawn"]]),
    ):
        for c1 in ([], [1], [3], [1, 3]):
            for c2 in ([], [1]):
                if any(st[0] == 1 and st[1] > len(c1) for st in starts):
                    continue
                yield {"scripts": [root, c1, c2], "starts": starts}
                if len(c1) <= 1:
                    yield {"scripts": [root, c1, c2], "starts": starts, "batch": 2}
                if starts[1][0] == 0:
                    # the root enters its blocks and spawns both children within ONE step
                    yield {"scripts": [root, c1, c2], "starts": starts, "nopause": True}
    tw = scripts(2, allowed=(0, 11, 12))
    for root in tw:
        for child in tw:
            if not (11 in root + child and 12 in root + child):
                continue
            for pos in range(len(root) + 1):
                yield {"scripts": [root, child], "starts": [[0, pos, "create" if pos % 2 else "spawn"]], "twins": True}
    # VERY deep nesting (9, 12 levels) in one task next to an observer
    for d in (9, 12) if tier == "quick" else (9, 12, 17):
        for pattern in ((1,), (1, 3, 0)):
            deep = [pattern[i % len(pattern)] for i in range(d)] + [-1] * d
            yield {"scripts": [[0, 1], deep], "starts": [[0, 2, "spawn"]], "deep": d}
            yield {"scripts": [[0], deep, []], "starts": [[0, 1, "create"], [0, 1, "create"]], "deep": d}
    # the ROOT nests deep and starts the child from the innermost level: the child keeps seeing
    # that snapshot while the root unwinds
    for d in (4, 6):
        for pattern in ((1,), (0, 1, 3)):
            deep = [pattern[i % len(pattern)] for i in range(d)] + [-1] * d
            yield {"scripts": [deep, [1, -1]], "starts": [[0, d, "spawn"]], "deep": d}
            yield {"scripts": [deep, [3]], "starts": [[0, d - 1, "create"]], "deep": d}


def explore_config(tier: str, program) -> dict:
    three = len(program["scripts"]) == 3
    return {"cap": 300000, "bound": None}


def execute(program, ch: Chooser) -> Result:  # noqa: C901, PLR0915
    w = World(ch, batch=program.get("batch", 1))
    viols: list[dict] = []
    supplied: dict[int, str] = {}
    keep: list = []
    log: list = []
    counter = itertools.count()
    tasks: dict[int, asyncio.Task] = {}
    alive_overlap = [False]
    interesting = [False]
    steps = [0]
    prepared: dict = {}

    def probe(tid: int, env: list[dict], in_scope: bool, soft: bool, where: str) -> None:
        steps[0] += 1
        types_ = ("A", "R") if not program.get("twins") else ("A", "TA", "TB")
        got = probe_state(supplied, "d-first", types=types_)
        exp = expected_state(env, in_scope, types=types_)
        for k in exp:
            if got[k] != exp[k]:
                if soft and got[k] == ("MissingContext",):
                    continue
                viols.append(
                    viol(
                        "isolation",
                        f"{k}:{exp[k][0]}->{got[k][0]}",
                        {k: list(exp[k])},
                        {k: list(got[k])},
                        task=tid,
                        where=where,
                        trace=list(w.trace),
                    )
                )
        log.append((tid, where, {k: list(v) for k, v in got.items()}))

    def exit_args(kind: str) -> tuple:
        # family "exit_exc": synchronous blocks are left the way a failing body leaves them (the
        # exception is handled by the task right outside the block)
        if program.get("exit_exc") and kind in ("sscope", "updated"):
            e = ValueError("body failed")
            return (ValueError, e, None)
        return (None, None, None)

    async def run_task(tid: int, env0: list[dict], in_scope0: bool, soft0: bool) -> None:
        env = [dict(level) for level in env0]
        in_scope, soft = in_scope0, soft0
        script = program["scripts"][tid]
        open_cms: list = []  # (kind, cm, saved in_scope, saved soft)
        others = sum(1 for t in tasks.values() if not t.done())
        if others > 1:
            alive_overlap[0] = True

        def maybe_start(pos: int) -> None:
            for child_idx, (starter, p, how) in enumerate(program["starts"], start=1):
                if starter == tid and p == pos:
                    coro = run_task(child_idx, [dict(lv) for lv in env], in_scope, soft)  # (a snapshot: the starter may go on within the same step)
                    if how == "spawn":
                        try:
                            t = ctx.spawn(lambda c=coro: c)
                        except RuntimeError:
                            t = w.loop.create_task(coro)
                    else:
                        t = w.loop.create_task(coro)
                    tasks[child_idx] = t

        if tid == 0:
            pst = make_states(["R"], "prepared")
            keep.extend(pst)
            supplied[id(pst[0])] = pst[0].tag
            prepared["states"] = pst
            prepared["cm"] = ctx.scope("prepared", *pst)
            ust = make_states(["R"], "shared-update")
            keep.extend(ust)
            supplied[id(ust[0])] = ust[0].tag
            prepared["upd_states"] = ust
            prepared["upd"] = ctx.updated(*ust)
        probe(tid, env, in_scope, soft, "start")
        for i, op in enumerate(script):
            maybe_start(i)
            if not (program.get("nopause") and tid == 0):
                await w.pause(f"t{tid}.{i}")  # (nopause: the root runs its whole script in ONE step)
            if any(not t.done() for k, t in tasks.items() if k != tid):
                if op >= 0:
                    interesting[0] = True  # (incl. op 5)
            if op == 5:
                with prepared["upd"]:
                    probe(tid, [*env, {"R": prepared["upd_states"][0].tag}], True, soft or not in_scope, f"in-shared-update{i}")
            elif op >= 0:
                kind, sup = BLOCKS[op]
                label = f"t{tid}b{next(counter)}"
                # the update block supplies two instances of its type in one call (the last wins)
                if sup == "R!":
                    states = list(prepared["upd_states"])
                elif sup in ("AR=", "A="):
                    from hv.ctxkit import A as _A, R as _R

                    states = [_A(tag="fixed")] + ([_R(x=1, tag="fixed")] if sup == "AR=" else [])
                else:
                    states = make_states([sup, sup] if (kind, sup) == ("updated", "A") else [sup], label)
                keep.extend(states)
                for st_ in states:
                    supplied[id(st_)] = st_.tag
                if kind == "dscope":
                    from hv.ctxkit import Disp

                    cm = ctx.scope(label, disposables=[Disp(states[0]), Disp(None)])
                    await cm.__aenter__()
                    kind = "ascope"
                elif kind == "prepared":
                    cm, states = prepared["cm"], prepared["states"]
                    cm.__enter__()
                    kind = "sscope"
                elif kind in ("sscope", "ascope"):
                    # the completion handler of a scope runs where the scope was declared: it sees
                    # the state visible at that position (not the state of whichever task happens to
                    # complete the scope, nor the scope's own)
                    decl_env, decl_in_scope, decl_soft = [dict(lv) for lv in env], in_scope, soft

                    def on_completion(_metrics, _tid=tid, _env=decl_env, _in=decl_in_scope, _soft=decl_soft, _label=label):
                        probe(_tid, _env, _in, _soft, f"completion-of-{_label}")

                    cm = ctx.scope(label, *states, completion=on_completion)
                    if kind == "sscope":
                        cm.__enter__()
                    else:
                        await cm.__aenter__()
                else:
                    cm = ctx.updated(*states)
                    cm.__enter__()
                open_cms.append((kind, cm, in_scope, soft))
                env.append({"R": states[0].tag} if sup == "R!" else {"A": "fixed", "R": "fixed"} if sup == "AR=" else ({"A": "fixed"} if sup == "A=" else {sup: states[-1].tag}))
                if kind == "updated":
                    soft = soft or not in_scope
                else:
                    soft = False
                in_scope = True
            else:
                kind, cm, in_scope, soft = open_cms.pop()
                env.pop()
                if kind == "ascope":
                    await cm.__aexit__(None, None, None)
                else:
                    cm.__exit__(*exit_args(kind))
            probe(tid, env, in_scope, soft, f"after-op{i}")
        maybe_start(len(script))
        await w.pause(f"t{tid}.end")
        probe(tid, env, in_scope, soft, "before-close")
        while open_cms:
            kind, cm, in_scope, soft = open_cms.pop()
            env.pop()
            if kind == "ascope":
                await cm.__aexit__(None, None, None)
            else:
                cm.__exit__(*exit_args(kind))
            probe(tid, env, in_scope, soft, "closing")

    try:
        tasks[0] = w.task(run_task(0, [], False, False), name="t0")
        hang = False
        try:
            w.run()
        except Livelock:
            hang = True
        if hang or any(not t.done() for t in tasks.values()):
            viols.append(viol("termination", "hang", "all tasks finish", w.trace[-6:]))
        for tid, t in tasks.items():
            if t.done() and not t.cancelled() and t.exception() is not None:
                viols.append(viol("script-error", type(t.exception()).__name__, "script runs", f"t{tid}: {t.exception()!r}"[:200], trace=list(w.trace)))
        if len(tasks) != len(program["scripts"]):
            viols.append(viol("harness", "task-not-started", len(program["scripts"]), len(tasks)))
        outcome = f"tasks={len(tasks)}/interesting={interesting[0]}/probes={min(len(log), 12)}"
        return Result(outcome, interesting[0], viols[:4], {"trace": w.trace, "probes": log[:16]}, steps=steps[0])
    finally:
        w.close()
