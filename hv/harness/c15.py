"""C15  Throttle never starts more than `limit` calls in any `period` window.

Arrivals are timers on a P/2 grid; the controller explores every order of timers sharing a
deadline (arrival vs arrival, arrival vs wake-up of a waiting call).
"""

import asyncio
import itertools
from datetime import timedelta

from hv import boot  # noqa: F401
from hv.core import Result, viol
from hv.exckit import OWN_CLASSES, make_own
from hv.vloop import Livelock
from hv.vtime import START, now
from hv.world import Chooser, World

from haiway.helpers.throttling import throttle  # noqa: E402

ID = "C15"
TECHNIQUE = "exhaustive enumeration of arrival patterns on a P/2 grid x all tie orders of equal-deadline timers, real throttle in exact virtual time; explicit-state search over canonical states to a fixpoint for at most K outstanding calls"
RULE = (
    "n calls with inter-arrival gaps in {0, P/2, P, 3P/2}, limit 1..3, period as float or "
    "timedelta, call duration in {0, P/2, P, 2P}, optionally one failing call (own exception class, or one of 13 built-in classes a wrapper might handle itself); all orders of timers "
    "sharing a deadline, sub-family with two equal-deadline timers landing in one loop iteration; sub-family with one caller cancelled at any quiescent point (window / order "
    "/ outcome of the other calls); two throttled functions used interleaved (own windows); long patterns of 8..16 calls (a gap cycle of length <= 2 repeated, then <= 2 free gaps; limits 1..4; tie orders with a stated deviation bound); non-trivial = at least one call was delayed or more than `limit` calls "
    "arrived within one period"
)
RULE += " Fixpoint searches: arrive / fire the earliest timer / idle P/2 histories of EVERY length with at most K = 2, 3, 4 (6) calls outstanding, limits 1-3, durations 0, P/2, 3P/2 (window, order, no needless delay, own outcome, nobody stuck evaluated online)."
RULE += ' Round 11: periods 9/8192 s, 1 + 1/1024 s, timedelta(days=1, microseconds=15625), int; round 13: two same-named functions with the same settings.'
ASSUMPTIONS = [
    "virtual time in exact dyadic units (P = 1.0 as float, 1.5 s as timedelta)",
    "arrival order = order in which the wrapper was invoked",
]
BOUNDS = {
    "quick": {"n_max": 5, "long_patterns": "n in {8, 12}, gap cycle (len <= 2) + <= 2 free gaps, limits 1..4, <= 2 tie-order deviations"},
    "thorough": {"n_max": 7, "long_patterns": "n in {8, 10, 12, 16}, gap cycle (len <= 2) + <= 2 free gaps, limits 1..4, <= 3 tie-order deviations"},
}
EXHAUSTIVE = {"quick": True, "thorough": True}
SAMPLE_EVERY = {"quick": 3000, "thorough": 60000}

# period 1.0 when given as float; 1.5 s (a fractional timedelta: days/seconds/microseconds all
# matter) when given as timedelta.  Gaps and durations are multiples of P/2 (dyadic in both cases).
PERIODS = {
    "float": 1.0,
    "timedelta": 1.5,
    # FINE / odd / huge periods (exact dyadic values off the millisecond grid)
    "float-fine": 1 / 1024 + 1 / 8192,
    "float-odd": 1.0 + 1 / 1024,
    "timedelta-days": 86400.0 + 1 / 64,  # timedelta(days=1, microseconds=15625)
    "int": 2.0,  # period given as the int 2
}
GAPS = [0.0, 0.5, 1.0, 1.5]  # in units of P


class TErr(Exception):
    pass


def programs(tier: str):
    n_max = BOUNDS[tier]["n_max"]
    for n in range(1, n_max + 1):
        for gaps in itertools.product(GAPS, repeat=n - 1):
            for limit in (1, 2, 3):
                for dur in (0.0, 0.5, 1.0, 2.0):  # in units of P (1.0: a call ends exactly when its slot expires)
                    for period in ("float", "timedelta"):
                        if period == "timedelta" and (dur != 0.5):
                            continue  # the period form does not interact with durations
                        for fail in (None, 0, n - 1):
                            if dur == 1.0 and (n > (4 if tier == "quick" else 6) or fail is not None):
                                continue
                            if fail is not None and (dur == 2.0 or (fail == n - 1 and n == 1)):
                                continue
                            yield {
                                "gaps": list(gaps),
                                "limit": limit,
                                "dur": dur,
                                "period": period,
                                "fail": fail,
                            }
    yield from _cancel_programs(tier)
    yield from _long_programs(tier)
    # explicit-state searches run to a fixpoint: arrival patterns of EVERY length on the P/2 grid
    # with at most K calls outstanding
    for active in (2, 3, 4) if tier == "quick" else (2, 3, 4, 6):
        for limit in (1, 2, 3):
            for dur in (0.0, 0.5, 1.5):
                yield {"fix": True, "active": active, "limit": limit, "dur": dur, "validate": "first" if tier == "quick" else "all", "deadline_s": 3000}
    for n in (2, 3, 4) if tier == "quick" else (2, 3, 4, 5):
        for gaps in itertools.product(GAPS, repeat=n - 1):
            for limit in (1, 2):
                for period in ("float-fine", "float-odd", "timedelta-days", "int"):
                    for dur in (0.0, 0.5):
                        yield {"gaps": list(gaps), "limit": limit, "dur": dur, "period": period, "fail": None}
    # the decorator's defaults (limit 1, period 1 s): bare, called without arguments, one given
    for form, limit in (("bare", 1), ("call", 1), ("limit-only", 2), ("limit-only", 1), ("period-only", 1)):
        for n in (2, 3, 4):
            for gaps in itertools.product(GAPS, repeat=n - 1):
                yield {"gaps": list(gaps), "limit": limit, "dur": 0.5, "period": "float", "fail": None, "form": form}
    yield from _two_programs(tier)
    # two timers due at the same instant (an arrival and the wake-up of a delayed call) landing in
    # the same loop iteration: the arrival then runs between the sleeper's release of the lock and
    # the resumption of the calls queued behind it
    for n in ((3, 4, 5) if tier == "quick" else (3, 4, 5, 6)):
        for gaps in itertools.product(GAPS, repeat=n - 1):
            for limit in (1, 2, 3):
                if limit >= n - 1:
                    continue
                yield {"gaps": list(gaps), "limit": limit, "dur": 0.5, "period": "float", "fail": None, "batch": 2}
    # the failing call ends with an exception of a class the wrapper might handle internally
    # (TypeError, LookupError, TimeoutError ...): same window, same object handed back
    for n in (2, 3):
        for gaps in itertools.product(GAPS[:3], repeat=n - 1):
            for limit in (1, 2):
                for dur in (0.0, 0.5):
                    for fail in (0, n - 1):
                        for c in range(len(OWN_CLASSES)):
                            yield {"gaps": list(gaps), "limit": limit, "dur": dur, "period": "float", "fail": fail, "errclass": c}
    for limit in (1, 2):
        for gaps in ([0.0, 0.0], [0.0, 0.5, 0.0], [0.5, 0.5], [0.0, 0.0, 0.0]):
            yield {"gaps": gaps, "limit": limit, "dur": 0.5, "period": "float", "fail": None, "partial": True}
    for limit in (1, 2):
        for gaps in ([0.0, 0.0], [0.0, 0.5, 0.0], [0.5, 0.5]):
            yield {"gaps": gaps, "limit": limit, "dur": 0.5, "period": "float", "fail": None, "attrs": True}


def _long_programs(tier: str):
    """long arrival patterns (the statement speaks of up to 12 calls): a gap cycle of length <= 2
    repeated until n - s calls have arrived, then every continuation of s <= 2 further gaps;
    limits 1..4.  Exhaustive for that family (all tie orders of equal-deadline timers)."""
    cycles = [[g] for g in GAPS] + [[a, b] for a in GAPS for b in GAPS if a != b]
    for n in (8, 12) if tier == "quick" else (8, 10, 12, 16):
        for cyc in cycles:
            for s in (0, 1, 2):
                base = (cyc * n)[: n - 1 - s]
                for tail in itertools.product(GAPS, repeat=s):
                    for limit in (1, 2, 3, 4):
                        for dur in (0.0, 0.5) if tier == "quick" else (0.0, 0.5, 2.0):
                            if tier == "quick" and s == 2 and (limit in (3,) or dur == 0.5 and n == 12):
                                continue
                            yield {"gaps": base + list(tail), "limit": limit, "dur": dur, "period": "float", "fail": None, "long": True}


def _cancel_programs(tier: str):
    """a caller may be cancelled (once) while it waits inside the throttle or while its call runs:
    the slot accounting of the others must stay right"""
    n_max = 4 if tier == "quick" else 5
    for n in range(2, n_max + 1):
        for gaps in itertools.product(GAPS[:3], repeat=n - 1):
            for limit in (1, 2):
                yield {"gaps": list(gaps), "limit": limit, "dur": 0.5, "period": "float", "fail": None, "cancels": 1}
                if n <= 3:
                    yield {"gaps": list(gaps), "limit": limit, "dur": 0.5, "period": "float", "fail": None, "cancels": 1, "fine": True}


def _two_programs(tier: str):
    # TWO throttled functions used interleaved (limit 2 / period 4 and limit 1 / period 1): each
    # keeps its own window
    for n in (2, 3, 4):
        for who in itertools.product("sf", repeat=n):
            if len(set(who)) < 2:
                continue
            for gaps in itertools.product((0.0, 0.5, 1.0, 3.0), repeat=n - 1):
                yield {"two": "".join(who), "gaps": list(gaps)}
                if n <= 3:
                    # two functions of the same name with the SAME settings: still two throttles
                    yield {"two": "".join(who), "gaps": list(gaps), "same_cfg": True}


def _two_throttles(program, ch: Chooser) -> Result:
    w = World(ch)
    viols: list[dict] = []
    cfg = {"s": (2, 4.0), "f": (1, 1.0)} if not program.get("same_cfg") else {"s": (1, 1.0), "f": (1, 1.0)}
    starts: dict[str, list] = {"s": [], "f": []}
    arrivals: dict[str, list] = {"s": [], "f": []}
    results: dict[int, tuple] = {}
    try:

        def make(which):
            async def fn(i):
                starts[which].append((i, now() - START))
                return (which, i)

            return throttle(limit=cfg[which][0], period=cfg[which][1])(fn)

        fns = {"s": make("s"), "f": make("f")}

        async def call(i, which):
            arrivals[which].append((i, now() - START))
            results[i] = await fns[which](i)

        at = 0.0
        times = [0.0]
        for g in program["gaps"]:
            at += g
            times.append(at)
        tasks: dict[int, asyncio.Task] = {}
        for i, (t, which) in enumerate(zip(times, program["two"])):
            w.loop.call_at(START + t, lambda i=i, which=which: tasks.__setitem__(i, w.task(call(i, which), name=f"c{i}")))
        hang = False
        try:
            w.run()
        except Livelock:
            hang = True
        n = len(times)
        if hang or len(tasks) < n or any(not t.done() for t in tasks.values()):
            viols.append(viol("termination", "two-throttles/call-never-finishes", "all calls finish", {"starts": starts}))
        for which, (limit, period) in cfg.items():
            # reference: each throttle on its own
            entries: list[float] = []
            last = 0.0
            want = []
            for i, a in arrivals[which]:
                t = max(a, last)
                while sum(1 for e in entries if t - period < e <= t) >= limit:
                    t = min(e for e in entries if e > t - period) + period
                entries.append(t)
                last = t
                want.append((i, t))
            if not hang and starts[which] != want:
                kind = "window" if any(sum(1 for _, t2 in starts[which] if t1 <= t2 < t1 + period) > limit for _, t1 in starts[which]) else "needless-delay-or-order"
                viols.append(viol(kind, f"two-throttles/{which}/limit={limit}", want, starts[which], other=starts["f" if which == "s" else "s"]))
        for i, t in tasks.items():
            if t.done() and not t.cancelled() and t.exception() is not None:
                viols.append(viol("outcome", "two-throttles/raises", "the function's own outcome", repr(t.exception())[:120]))
            elif t.done() and not t.cancelled() and results.get(i) != (program["two"][i], i):
                viols.append(viol("outcome", "two-throttles/not-own", [program["two"][i], i], list(results.get(i) or ())))
        delayed = sum(1 for which in cfg for (i, t), (_, a) in zip(starts[which], arrivals[which]) if t > a)
        return Result(f"two/{len(times)}/delayed={min(delayed, 2)}", delayed > 0, viols[:4], {"starts": starts, "arrivals": arrivals})
    finally:
        w.close()


class _Token:
    """opaque argument identifying one call"""

    rec: dict


class TSys:
    """One throttled function driven operation by operation (hv.xstate.fixpoint interface): a new
    call arrives, the earliest timer fires (the clock jumps there), or the clock idles P/2 ahead when
    no timer lies before that - arrival patterns of EVERY length on the P/2 grid with at most K
    calls outstanding.  Oracle online: window, arrival order, no needless delay at every quiescent
    point, own outcome, nobody stuck."""

    def __init__(self, program) -> None:
        from hv import vtime as _vt
        from hv.vloop import VLoop

        self.program = program
        self.K, self.limit, self.P, self.dur = program["active"], program["limit"], 1.0, program["dur"]
        _vt.reset()
        self.vt = _vt
        self.loop = VLoop()
        self.loop.open()
        self.viols: list[dict] = []
        self.hist: list = []
        self.ncalls = 0
        self.calls: list[dict] = []  # outstanding {n, arrived, started, task}
        self.starts: list[float] = []  # start times of the last calls (absolute)
        sys_ = self

        async def inner(token):
            # (the call is identified by an opaque token: a growing call number among the arguments
            # would keep the canonical states apart for ever)
            rec = token.rec
            n = rec["n"]
            rec["started"] = sys_.vt.now()
            sys_.starts.append(rec["started"])
            sys_.new_starts.append(n)
            if sys_.dur > 0:
                await asyncio.sleep(sys_.dur)
            return ("r", n)

        self.fn = throttle(limit=self.limit, period=self.P)(inner)
        self.new_starts: list[int] = []

    def close(self) -> None:
        self.loop.shutdown()

    def enabled(self):
        ops: list = []
        if len(self.calls) < self.K:
            ops.append("arrive")
        nxt = self.loop.next_deadline()
        if nxt is not None:
            ops.append("fire")
        if nxt is None or nxt > self.vt.now() + 0.5:
            if self.calls or any(t > self.vt.now() - self.P - 0.5 for t in self.starts):
                ops.append("idle")  # (pointless once nothing is outstanding and every window has passed)
        return ops

    def _settle(self) -> list:
        self.loop.run_ready()
        now = self.vt.now()
        out: list = []
        # order: calls start in arrival order
        waiting_before = [c["n"] for c in self.calls if c["started"] is None or c["n"] in self.new_starts]
        if self.new_starts != waiting_before[: len(self.new_starts)]:
            self.viols.append(viol("order", "fix/starts-not-in-arrival-order", waiting_before[: len(self.new_starts)], list(self.new_starts), history=list(self.hist)))
        # window: no more than `limit` starts in any [s, s + P)
        for s_ in sorted(set(self.starts[-(self.limit + len(self.new_starts) + 1):])):
            if sum(1 for t in self.starts if s_ <= t < s_ + self.P) > self.limit:
                self.viols.append(viol("window", f"fix/limit={self.limit}", f"<= {self.limit} starts in [{s_ - START}, {s_ - START + self.P})", [t - START for t in self.starts[-6:]], history=list(self.hist)))
                break
        out.append(("started", len(self.new_starts)))
        self.new_starts.clear()
        # finished calls: own outcome
        keep = []
        for c in self.calls:
            t = c["task"]
            if t.done():
                if t.cancelled() or t.exception() is not None or t.result() != ("r", c["n"]):
                    self.viols.append(viol("outcome", "fix/not-own", ["r", c["n"]], "cancelled" if t.cancelled() else repr(t.exception() or t.result())[:80], history=list(self.hist)))
                out.append("done")
            else:
                keep.append(c)
        self.calls = keep
        # no needless delay: the head waiter is not kept waiting while there is room
        waiting = [c for c in self.calls if c["started"] is None]
        recent = sum(1 for t in self.starts if t > now - self.P)
        nxt_ = self.loop.next_deadline()
        if waiting and recent < self.limit and not (nxt_ is not None and nxt_ <= now):  # (a wake-up due at this very instant has not fired yet)
            self.viols.append(viol("no-needless-delay", f"fix/limit={self.limit}", "the first waiting call starts as soon as fewer than `limit` calls began in the last period", {"waiting": len(waiting), "recent starts": recent}, history=list(self.hist)))
        # nobody is stuck: a waiting / running call always has a timer ahead
        if self.calls and self.loop.next_deadline() is None:
            self.viols.append(viol("termination", "fix/call-never-finishes", "a timer is pending for the outstanding calls", {"outstanding": len(self.calls)}, history=list(self.hist)))
        self.starts = [t for t in self.starts if t > now - 2 * self.P - 1]
        return out

    def apply(self, op):
        self.hist.append(op)
        if op == "arrive":
            n = self.ncalls
            self.ncalls += 1
            rec = {"n": n, "arrived": self.vt.now(), "started": None, "task": None}
            self.calls.append(rec)
            tok = _Token()
            tok.rec = rec
            rec["task"] = self.loop.create_task(self.fn(tok), name="call")
        elif op == "fire":
            grp = self.loop.due_group()
            self.loop.fire(grp[0])
        elif op == "idle":
            self.vt.advance(0.5)
        return [op, *self._settle()]

    def canon(self):
        from hv import xstate

        import haiway.helpers.throttling as mod

        c = xstate.Canon({}, horizon=2 * self.P + 1)
        ren: dict[int, int] = {}
        for cl in self.calls:
            ren.setdefault(cl["n"], len(ren))
        now = self.vt.now()
        calls = tuple((ren[cl["n"]], cl["started"] is not None, None if cl["started"] is None else repr(cl["started"] - now), c(cl["task"])) for cl in self.calls)
        starts = tuple(repr(t - now) for t in self.starts if t > now - self.P)
        return (c(self.fn), xstate.module_state(mod, c), calls, starts, xstate.loop_state(self.loop, c))


def execute_fix(program) -> Result:
    from hv import xstate

    r = xstate.fixpoint(lambda: TSys(program), max_states=program.get("max_states", 100000), validate_merges=program.get("validate", "all"))
    obs = {k: v for k, v in r.items() if k != "violations"}
    return Result("fix/" + ("capped" if r["capped"] else "fixpoint"), r["states"] > 10, r["violations"], obs, steps=r["transitions"], capped=r["capped"], xstates=r["states"], xinfo=obs)


DECLARED_DEVIATION_BOUND = {"quick": 2, "thorough": 3}  # for the long patterns only (BOUNDS / RULE say so)


def explore_config(tier: str, program) -> dict:
    if program.get("fix"):
        return {}
    if program.get("long"):
        # 8..16 calls: every tie order is exponential; all executions with at most 2 (3) non-default
        # tie choices are explored (CHESS-style deviation bound), the default being FIFO
        return {"cap": 400000, "bound": DECLARED_DEVIATION_BOUND[tier]}
    return {"cap": 400000}


def execute(program, ch: Chooser) -> Result:  # noqa: C901, PLR0912, PLR0915
    if program.get("fix"):
        return execute_fix(program)
    if "two" in program:
        return _two_throttles(program, ch)
    P = PERIODS[program["period"]]
    gaps, limit, dur, fail = [g * P for g in program["gaps"]], program["limit"], program["dur"] * P, program["fail"]
    n = len(gaps) + 1
    w = World(ch, cancel_budget=program.get("cancels", 0), batch=program.get("batch", 1), fine=program.get("fine", False))
    viols: list[dict] = []
    try:
        starts: list[tuple[int, float]] = []
        arrivals: list[tuple[int, float]] = []
        results: dict[int, tuple] = {}
        errs: dict[int, BaseException] = {i: TErr(f"e{i}") for i in range(n)}
        if "errclass" in program:
            errs = {i: make_own(OWN_CLASSES[program["errclass"]], f"e{i}") for i in range(n)}

        async def fn(i):
            starts.append((i, now() - START))
            if dur > 0:
                await asyncio.sleep(dur)
            if i == fail:
                raise errs[i]
            return ("r", i)

        if program.get("partial"):
            # the wrapped callable is a functools.partial of a coroutine function (no __name__)
            import functools

            async def fn_impl(_bound, i):
                starts.append((i, now() - START))
                if dur > 0:
                    await asyncio.sleep(dur)
                return ("r", i)

            fn = functools.partial(fn_impl, None)
        if program.get("attrs"):
            # the wrapped function carries attributes of its own that happen to be named like the
            # wrapper's internals: they must not reconfigure the throttle
            fn._limit = 99
            fn._period = 0.0
            fn._entries = None
        form = program.get("form")
        if form == "bare":
            fn = throttle(fn)  # defaults: one call per second
        elif form == "call":
            fn = throttle()(fn)
        elif form == "limit-only":
            fn = throttle(limit=limit)(fn)  # period defaults to one second
        elif form == "period-only":
            fn = throttle(period=P)(fn)  # limit defaults to one
        else:
            pform = program["period"]
            fn = throttle(limit=limit, period=timedelta(seconds=P) if pform.startswith("timedelta") else (int(P) if pform == "int" else P))(fn)
        tasks: dict[int, asyncio.Task] = {}

        async def call(i):
            arrivals.append((i, now() - START))
            try:
                results[i] = ("value", await fn(i))
            except asyncio.CancelledError:
                raise
            except Exception as exc:  # noqa: BLE001
                results[i] = ("raised", exc is errs[i])

        at = 0.0
        times = [0.0]
        for g in gaps:
            at += g
            times.append(at)
        # calls arriving at the same instant are identical up to their index (symmetry): one timer
        # per distinct instant starts them in index order; ties between an arrival instant and a
        # wake-up of a waiting call are still explored in both orders
        groups: dict[float, list[int]] = {}
        for i, a in enumerate(times):
            groups.setdefault(a, []).append(i)

        def arrive(idxs):
            for i in idxs:
                tasks[i] = w.task(call(i), name=f"c{i}", victim=bool(program.get("cancels")))

        for a, idxs in groups.items():
            w.loop.call_at(START + a, arrive, idxs)
        hang = False
        try:
            w.run()
        except Livelock:
            hang = True
        # ---- oracle ----
        obs = {"arrivals": arrivals, "starts": starts, "results": {str(k): v for k, v in sorted(results.items())}}
        done = all(i in tasks and tasks[i].done() for i in range(n))
        if hang or not done:
            viols.append(viol("termination", "call-never-finishes", "all calls finish", obs))
        cancelled_calls = {name for name, _ in w.cancelled_at}
        for i in range(n):
            if f"c{i}" in cancelled_calls:
                continue
            if i not in results and not hang and done:
                viols.append(viol("outcome", "call-without-outcome", f"call {i} returns the function's outcome", "nothing"))
            if i in results:
                exp = ("raised", True) if i == fail else ("value", ("r", i))
                if results[i] != exp:
                    viols.append(viol("outcome", "not-own", list(exp), list(results[i])))
        stimes = [t for _, t in starts]
        for idx, (i, s) in enumerate(starts):
            inwin = sum(1 for t in stimes if s <= t < s + P)
            if inwin > limit:
                viols.append(
                    viol("window", f"limit={limit}", f"<= {limit} starts in [{s}, {s + P})", {"starts": starts})
                )
                break
        order_start = [i for i, _ in starts]
        order_arr = [i for i, _ in arrivals if f"c{i}" not in {name for name, _ in w.cancelled_at} or i in order_start]
        if order_start != order_arr[: len(order_start)]:
            viols.append(viol("order", "starts-not-in-arrival-order", order_arr, order_start))
        # not delayed when there is room and nobody earlier is waiting
        start_of = dict(starts)
        pos = {i: k for k, (i, _) in enumerate(arrivals)}
        delayed = 0
        for i, a in arrivals:
            if i not in start_of:
                continue
            if start_of[i] > a:
                delayed += 1
            earlier = [j for j, _ in arrivals[: pos[i]]]
            # starts of earlier arrivals that lie in (a - P, a]
            recent = sum(1 for j in earlier if j in start_of and a - P < start_of[j] <= a)
            waiting = any(j not in start_of or start_of[j] > a for j in earlier)
            if cancelled_calls:
                break  # "no earlier call waiting" is not well defined around a cancelled waiter
            if recent < limit and not waiting and start_of[i] != a:
                viols.append(
                    viol(
                        "no-needless-delay",
                        f"limit={limit}",
                        f"call {i} starts at its arrival {a}",
                        {"start": start_of[i], "arrivals": arrivals, "starts": starts},
                    )
                )
                break
        burst = any(
            sum(1 for _, b in arrivals if a <= b < a + P) > limit for _, a in arrivals
        )
        outcome = f"n={n}/delayed={min(delayed, 3)}/burst={burst}/hang={hang}"
        return Result(outcome, delayed > 0 or burst, viols, obs)
    finally:
        w.close()
