"""C13  Async cache shares one in-flight call; cancelling a waiter harms no one else.

Callers are tasks; the environment starts them, cancels them, completes the underlying
invocations, advances the clock past the expiration - in every order, optionally two events in
the same loop iteration (micro-batching).
"""

import asyncio
import itertools
from collections import OrderedDict

from hv import boot  # noqa: F401
from hv import vtime
from hv.core import Result, viol
from hv.exckit import OWN_CLASSES, make_own
from hv.vloop import Livelock
from hv.world import Action, Chooser, World

from haiway.helpers.caching import cache  # noqa: E402

ID = "C13"
TECHNIQUE = "stateless schedule exploration (DFS, prefix replay) of caller starts / cancellations / invocation completions / expiry on the real async cache, reference LRU of in-flight invocations"
RULE = (
    "2..4 caller tasks over 1..2 keys (5 callers over 3 keys with limit 2 in one sub-family) (cached function and cached method), limit 1..2, expiration none/2, invocation outcome value/"
    "exception, up to 2 cancellations, one or two clock advances (entries expiring at different instants); all interleavings of "
    "{start next caller, cancel caller, complete invocation, advance clock}, with and without two "
    "events in one loop iteration; non-trivial = at least two callers shared one invocation or a "
    "caller was cancelled while its invocation was in flight"
)
ASSUMPTIONS = [
    "callers are started in index order (callers are symmetric up to their key)",
    "clock advances (one of 3, or two of 1.25) never land exactly on the expiration boundary (2)",
]
BOUNDS = {
    "quick": {"callers": [2, 3], "cancels": [0, 1]},
    "thorough": {"callers": [2, 3, 4], "cancels": [0, 1, 2]},
}
EXHAUSTIVE = {"quick": True, "thorough": True}
SAMPLE_EVERY = {"quick": 20000, "thorough": 400000}


class InvErr(Exception):
    pass


class Produced:
    __slots__ = ("n",)

    def __init__(self, n) -> None:
        self.n = n


def _many_waiters(tier: str):
    # MANY callers waiting for ONE in-flight invocation (4..9; thorough 17): all of them get its
    # outcome, whichever of them is cancelled meanwhile, however long the list of waiters grows
    for n in (4, 5, 6, 9) if tier == "quick" else (4, 5, 6, 7, 9, 12, 17):
        for outcome in ("value", "exc"):
            for cancels in (0, 1):
                for variant in ("function", "method"):
                    if variant == "method" and (cancels or n > 6):
                        continue
                    yield {"keys": "a" * n, "limit": 1, "expiration": None, "outcome": outcome, "cancels": cancels, "batch": 1, "variant": variant}
        # ... and a second key arriving in between (limit 2: nothing is evicted; limit 1: the first
        # entry is evicted while its invocation is in flight - the waiters still get its outcome)
        for limit in (1, 2):
            yield {"keys": "aab" + "a" * (n - 3), "limit": limit, "expiration": None, "outcome": "value", "cancels": 0, "batch": 1, "variant": "function"}


def _fix_programs(tier: str):
    """explicit-state searches run to a fixpoint (hv.xstate): call / completion / cancellation /
    clock histories of EVERY length with at most K callers active at a time"""
    if tier == "quick":
        cfgs = [(2, 1, None, 2, "function"), (2, 2, None, 2, "function"), (3, 1, None, 2, "function"), (2, 1, 2, 1, "function"), (2, 1, 2, 2, "function"), (2, 1, None, 2, "method"), (2, 1, None, 2, "function-exc")]
    else:
        cfgs = [(2, 1, None, 2, "function"), (2, 2, None, 2, "function"), (3, 1, None, 2, "function"), (3, 2, None, 2, "function"), (2, 1, 2, 1, "function"), (2, 1, 2, 2, "function"), (2, 2, 2, 2, "function"), (3, 1, 2, 1, "function"), (2, 1, None, 2, "method"), (2, 2, 2, 2, "method"), (2, 1, None, 2, "function-exc"), (4, 1, None, 1, "function")]
    for active, limit, expiration, keys, variant in cfgs:
        yield {"fix": True, "active": active, "limit": limit, "expiration": expiration, "keys": keys, "variant": variant.split("-")[0], "outcome": "exc" if variant.endswith("exc") else "value", "validate": "first" if tier == "quick" else "all", "deadline_s": 6000, "max_states": 200000}


def _forms_and_scales(tier: str):
    # the keyword call form (all callers, or every second one next to positional callers - which
    # may or may not share an entry with them: each form on its own must be single-flight), and
    # FINE / huge time scales: expirations of 1/2048 s, 3/1024 s and 2**20 s
    for keys in ("aa", "aaa", "aba", "aaaa"):
        for limit in (1, 2):
            if limit == 2 and "b" not in keys:
                continue
            for cancels in (0, 1):
                if cancels and len(keys) == 4:
                    continue
                for variant in ("function", "method"):
                    yield {"keys": keys, "limit": limit, "expiration": None, "outcome": "value", "cancels": cancels, "batch": 1, "variant": variant, "kw": "all"}
    for keys in ("aa", "aaa", "aba"):
        for expiration in (1 / 2048, 3 / 1024, float(2**20)):
            for cancels in (0, 1):
                yield {"keys": keys, "limit": 1 if "b" not in keys else 2, "expiration": expiration, "outcome": "value", "cancels": cancels, "batch": 1, "variant": "function"}


def programs(tier: str):
    yield from _forms_and_scales(tier)
    yield from _fix_programs(tier)
    yield from _many_waiters(tier)
    yield from _five(tier)
    yield from _fine(tier)
    yield from _own_errors(tier)
    yield from _colliding(tier)
    yield from _method_eq(tier)
    yield from _three_keys(tier)
    yield from _wrapped(tier)
    b = BOUNDS[tier]
    for n in b["callers"]:
        for rest in itertools.product("ab", repeat=n - 1):
            keys = "a" + "".join(rest)
            for limit in (1, 2):
                if limit == 2 and "b" not in keys:
                    continue
                for expiration in (None, 2):
                    for outcome in ("value", "exc"):
                        for cancels in b["cancels"]:
                            for batch in (1, 2):
                                if batch == 2 and cancels == 0:
                                    continue
                                if n == 4 and (batch == 2 or cancels == 2) and expiration is not None:
                                    continue  # bounded: see BOUNDS note in evidence
                                for variant in ("function", "method"):
                                    if variant == "method" and (n == 4 or (cancels == 2)):
                                        continue
                                    if variant == "method" and tier == "quick" and (batch == 2 or (n == 3 and expiration is not None)):
                                        continue
                                    yield {
                                        "keys": keys,
                                        "limit": limit,
                                        "expiration": expiration,
                                        "outcome": outcome,
                                        "cancels": cancels,
                                        "batch": batch,
                                        "variant": variant,
                                    }


def _fine(tier: str):
    # a caller cancelled between two loop iterations (e.g. right after it created / joined the
    # shared invocation and before anybody took a step)
    for keys in ("aa", "ab", "aaa"):
        for limit in (1, 2):
            if limit == 2 and "b" not in keys:
                continue
            for outcome in ("value", "exc"):
                for variant in ("function", "method"):
                    yield {"keys": keys, "limit": limit, "expiration": None, "outcome": outcome, "cancels": 1, "batch": 1, "variant": variant, "fine": True}


def _own_errors(tier: str):
    # the shared invocation fails with an exception of a class the cache might handle internally
    # (KeyError, LookupError, TimeoutError ...): every caller gets that very object
    for k in range(len(OWN_CLASSES)):
        for keys in ("aa", "aaa"):
            yield {"keys": keys, "limit": 1, "expiration": None, "outcome": f"own:{k}", "cancels": 0, "batch": 1, "variant": "function"}


def _colliding(tier: str):
    # two different keys whose hashes are equal (-1 and -2): two entries, two invocations
    for keys in ("ab", "aab", "abab"):
        for limit in (1, 2):
            for cancels in (0, 1):
                yield {"keys": keys, "limit": limit, "expiration": None, "outcome": "value", "cancels": cancels, "batch": 1, "variant": "function", "keymap": {"a": -1, "b": -2}}


def _method_eq(tier: str):
    for keys in ("aa", "aaa", "aab", "aaaa"):
        for cancels in (0, 1):
            if keys == "aaaa" and cancels:
                continue
            yield {"keys": keys, "limit": 2, "expiration": None, "outcome": "value", "cancels": cancels, "batch": 1, "variant": "method-eq"}


def _wrapped(tier: str):
    # the cached function stacked under another haiway wrapper / called from inside scopes: sharing
    # and isolation must not depend on it
    for keys in ("aa", "aaa", "aab"):
        for how in ("timeout", "scoped"):
            for cancels in (0, 1):
                yield {"keys": keys, "limit": 1, "expiration": None, "outcome": "value", "cancels": cancels, "batch": 1, "variant": "function", "wrap": how}


def _five(tier: str):
    # five callers, two keys, entries expiring at different instants (a hit in between re-orders
    # the LRU): refreshing the expired key must not disturb the other, still valid one
    for keys in ("ababb", "abaab") if tier == "quick" else ("ababb", "abaab", "abbab", "aabab"):
        for variant in ("function", "method"):
            yield {"keys": keys, "limit": 2, "expiration": 2, "outcome": "value", "cancels": 0, "batch": 1, "variant": variant, "instant": True}


def _three_keys(tier: str):
    # three keys with limit 2: refreshing an expired key while another one is still valid and a
    # third one arrives - the refreshed (in-flight) entry is the most recently used one
    for keys in ("abaca",) if tier == "quick" else ("abaca", "abcab", "abaac"):
        yield {"keys": keys, "limit": 2, "expiration": 2, "outcome": "value", "cancels": 0, "batch": 1, "variant": "function", "adv2": True}


class CSys:
    """Async cache + reference LRU with at most K callers active at a time, driven operation by
    operation (hv.xstate.fixpoint interface): start a caller on key a / b, let the loop run, complete
    the oldest / newest in-flight invocation, cancel an active caller, advance the clock.  The oracle
    runs online: invocations == misses at the instant of every call; a finished caller holds its own
    invocation's outcome; a cancelled caller ends cancelled and nobody else; invocations never see a
    cancellation."""

    def __init__(self, program) -> None:
        from hv.vloop import VLoop

        self.program = program
        self.K, self.limit, self.expiration = program["active"], program["limit"], program["expiration"]
        self.outcome = program.get("outcome", "value")
        vtime.reset()
        self.loop = VLoop()
        self.loop.open()
        self.viols: list[dict] = []
        self.hist: list = []
        self.invs: list[dict] = []  # all invocations, in start order
        self.model: OrderedDict = OrderedDict()  # key -> (inv index, expire)
        self.callers: list[dict] = []  # active callers {key, inv, task, cancel_requested}
        self.ncalls = 0
        sys_ = self

        async def body(key):
            rec = {"key": key, "n": len(sys_.invs), "saw_cancel": False, "done": False, "fut": sys_.loop.create_future()}
            sys_.invs.append(rec)
            try:
                await rec["fut"]
            except asyncio.CancelledError:
                rec["saw_cancel"] = True
                raise
            rec["done"] = True
            if sys_.outcome == "exc":
                rec["exc"] = InvErr(f"inv{rec['n']}")
                rec["exc"].n = rec["n"]
                raise rec["exc"]
            rec["val"] = Produced(rec["n"])
            return rec["val"]

        if program.get("variant") == "method":

            class Owner:
                @cache(limit=self.limit, expiration=self.expiration)
                async def call(self, key):
                    return await body(key)

            self.owner = Owner()
            self.fn = self.owner.call
            self.root = vars(Owner)["call"]
        else:

            @cache(limit=self.limit, expiration=self.expiration)
            async def fn(key):
                return await body(key)

            self.fn = fn
            self.root = fn

    def close(self) -> None:
        self.loop.shutdown()

    # -- reference --
    def _model_call(self, key: str) -> int:
        now = vtime.now()
        e = self.model.get(key)
        if e is not None and not (e[1] is not None and e[1] < now):
            self.model.move_to_end(key)
            return e[0]
        self.model.pop(key, None)
        inv = len(self.invs)  # the invocation this call must start
        self.model[key] = (inv, None if self.expiration is None else now + self.expiration)
        if len(self.model) > self.limit:
            self.model.popitem(last=False)
        return inv

    def _inflight(self) -> list[dict]:
        return [r for r in self.invs if not r["fut"].done()]

    def enabled(self):
        ops: list = []
        fl = self._inflight()
        if len(self.callers) < self.K:
            now = vtime.now()
            for key in ("a", "b") if self.program.get("keys", 2) == 2 else ("a",):
                e = self.model.get(key)
                miss = e is None or (e[1] is not None and e[1] < now)
                # invocations whose callers were all cancelled stay in flight: bound them
                if not miss or len(fl) < self.K + 1:
                    ops.append(("start", key))
        if fl:
            ops.append(("complete", "oldest"))
            if len(fl) > 1:
                ops.append(("complete", "newest"))
        for i, c in enumerate(self.callers):
            if not c["cancel_requested"] and not c["task"].done():
                ops.append(("cancel", i))
        if self.expiration is not None:
            ops.append(("adv", 1.25))
        return ops

    def _harvest(self) -> list:
        out: list = []
        keep: list = []
        for c in self.callers:
            t = c["task"]
            if not t.done():
                keep.append(c)
                continue
            inv = self.invs[c["inv"]] if c["inv"] < len(self.invs) else None
            if c["cancel_requested"]:
                if not t.cancelled():
                    # the outcome may have been delivered before the request took effect
                    if not (inv and inv["fut"].done()):
                        self.viols.append(viol("cancel", "cancelled-caller-not-cancelled", "cancelled", "finished", history=list(self.hist)))
                out.append("cancelled" if t.cancelled() else "finished-before-cancel")
                continue
            if t.cancelled():
                self.viols.append(viol("isolation", "bystander-cancelled", "the caller gets its invocation's outcome", "cancelled", history=list(self.hist)))
                out.append("bystander-cancelled")
                continue
            exc = t.exception()
            got = exc if exc is not None else t.result()
            want = None if inv is None else (inv.get("exc") if self.outcome == "exc" else inv.get("val"))
            if inv is None or got is not want:
                self.viols.append(
                    viol("delivery", "wrong-invocation", f"outcome of invocation {c['inv']} (key {c['key']})", f"{type(got).__name__} n={getattr(got, 'n', None)} {str(got)[:40]}", history=list(self.hist))
                )
            out.append(("got", c["key"]))
        self.callers = keep
        return out

    def apply(self, op):  # noqa: C901
        op = tuple(op)
        self.hist.append(list(op))
        obs: list = [list(op)]
        if op[0] == "start":
            key = op[1]
            before = len(self.invs)
            want_inv = self._model_call(key)
            task = self.loop.create_task(self.fn(key), name=f"call{self.ncalls}")
            self.ncalls += 1
            self.callers.append({"key": key, "inv": want_inv, "task": task, "cancel_requested": False})
            self.loop.run_ready()
            started = len(self.invs) - before
            if want_inv == before and started != 1:
                self.viols.append(viol("single-flight", "missing-invocation", "a new invocation for the missed key", f"{started} started", history=list(self.hist)))
            elif want_inv < before and started != 0:
                self.viols.append(viol("single-flight", "extra-invocation", f"shares invocation {want_inv}", f"{started} new invocation(s)", history=list(self.hist)))
            elif started == 1 and self.invs[-1]["key"] != key:
                self.viols.append(viol("single-flight", "invocations-differ", key, self.invs[-1]["key"], history=list(self.hist)))
            obs.append("miss" if started else "join")
        elif op[0] == "complete":
            fl = self._inflight()
            rec = fl[0] if op[1] == "oldest" else fl[-1]
            rec["fut"].set_result(None)
            self.loop.run_ready()
        elif op[0] == "cancel":
            c = self.callers[op[1]]
            c["cancel_requested"] = True
            c["task"].cancel()
            self.loop.run_ready()
        elif op[0] == "adv":
            vtime.advance(op[1])
            self.loop.run_ready()
        obs += self._harvest()
        for r in self.invs:
            if r["saw_cancel"] and not r.get("reported"):
                r["reported"] = True
                self.viols.append(viol("isolation", "invocation-cancelled", "the invocation never sees CancelledError", r["n"], history=list(self.hist)))
        # every caller whose invocation has finished is done by now (delivery terminates)
        for c in self.callers:
            inv = self.invs[c["inv"]] if c["inv"] < len(self.invs) else None
            if inv is not None and inv["fut"].done() and not c["task"].done():
                self.viols.append(viol("termination", "caller-hangs", "a caller is done once its invocation finished", {"key": c["key"], "inv": c["inv"]}, history=list(self.hist)))
                break
        return obs

    def canon(self):
        from hv import xstate

        import haiway.helpers.caching as mod

        names = {id(self.owner): "owner"} if self.program.get("variant") == "method" else {}
        c = xstate.Canon(names, horizon=(self.expiration or 0) + 1.5)
        # invocation numbers are renamed in order of appearance: model (LRU order), then callers
        ren: dict[int, int] = {}

        def rn(n: int) -> int:
            return ren.setdefault(n, len(ren))

        e = self.expiration
        model = tuple((k, rn(inv), None if exp is None else repr(max(exp - vtime.now(), -1.5))) for k, (inv, exp) in self.model.items())
        for cl in self.callers:
            rn(cl["inv"])
        for r in self._inflight():
            rn(r["n"])
        c.rename = lambda n: ren.get(n, "stale")  # type: ignore[attr-defined]
        callers = tuple((cl["key"], rn(cl["inv"]), cl["cancel_requested"], c(cl["task"])) for cl in self.callers)
        flying = tuple((rn(r["n"]), r["key"]) for r in self._inflight())
        # invocations nothing refers to any more (a replaced entry still held by a local variable
        # of a suspended frame) are all the same "stale"
        c.rename = lambda n: ren.get(n, "stale")  # type: ignore[attr-defined]
        impl = c(self.root)
        return (impl, xstate.module_state(mod, c), model, callers, flying, xstate.loop_state(self.loop, c))


def _produced_canon(self, c):
    rn = getattr(c, "rename", None)
    return ("P", rn(self.n) if rn else self.n)


Produced.__hv_canon__ = _produced_canon  # type: ignore[attr-defined]


def _inverr_canon(self, c):
    rn = getattr(c, "rename", None)
    n = getattr(self, "n", None)
    return ("InvErr", rn(n) if (rn and n is not None) else str(self))


InvErr.__hv_canon__ = _inverr_canon  # type: ignore[attr-defined]


def execute_fix(program) -> Result:
    from hv import xstate

    r = xstate.fixpoint(lambda: CSys(program), max_states=program.get("max_states", 80000), validate_merges=program.get("validate", "all"))
    obs = {k: v for k, v in r.items() if k != "violations"}
    return Result("fix/" + ("capped" if r["capped"] else "fixpoint"), r["states"] > 10, r["violations"], obs, steps=r["transitions"], capped=r["capped"], xstates=r["states"], xinfo=obs)


def explore_config(tier: str, program) -> dict:
    if program.get("fix"):
        return {"split_depth": 0}
    heavy = len(program["keys"]) >= 3 and program["cancels"] >= 1
    return {"cap": 400000, "split_depth": 3 if heavy else 0}


def execute(program, ch: Chooser) -> Result:  # noqa: C901, PLR0912, PLR0915
    if program.get("fix"):
        return execute_fix(program)
    keys, limit, expiration = program["keys"], program["limit"], program["expiration"]
    n = len(keys)
    w = World(ch, cancel_budget=program["cancels"], batch=program["batch"], fine=program.get("fine", False))
    viols: list[dict] = []
    try:
        started: list[dict] = []  # invocations in start order

        async def body(key):
            if program.get("keymap"):
                key = {v: k for k, v in program["keymap"].items()}[key]  # back to the letter
            rec = {"key": key, "n": len(started), "saw_cancel": False, "done": False}
            started.append(rec)
            try:
                if not program.get("instant"):
                    await w.pause(f"inv{rec['n']}")
            except asyncio.CancelledError:
                rec["saw_cancel"] = True
                raise
            rec["done"] = True
            if program["outcome"] == "exc":
                rec["exc"] = InvErr(f"inv{rec['n']}")
                raise rec["exc"]
            if program["outcome"].startswith("own:"):
                rec["exc"] = make_own(OWN_CLASSES[int(program["outcome"][4:])], f"inv{rec['n']}")
                raise rec["exc"]
            rec["val"] = Produced(rec["n"])
            return rec["val"]

        if program.get("variant", "function") == "method":

            class Owner:
                @cache(limit=limit, expiration=expiration)
                async def call(self, key):
                    return await body(key)

            fn = Owner().call
        elif program.get("variant") == "method-eq":
            # two distinct receivers that compare (and hash) equal: callers alternate between
            # them; each receiver has its own entries and its own in-flight invocations

            class EqOwner:
                def __init__(self, rid):
                    self.rid = rid

                def __eq__(self, other):
                    return isinstance(other, EqOwner)

                def __hash__(self):
                    return 17

                @cache(limit=limit, expiration=expiration)
                async def call(self, key):
                    return await body(f"{key}@{self.rid}")

            receivers = [EqOwner(0), EqOwner(1)]
            fn = None
        else:

            @cache(limit=limit, expiration=expiration)
            async def fn(key):
                return await body(key)

            if program.get("wrap") == "timeout":
                from haiway.helpers.timeouted import timeout

                fn = timeout(1000.0)(fn)

        # reference model, updated at the instant the caller invokes the cached function
        model: OrderedDict = OrderedDict()  # key -> (inv index, expire)
        misses: list[str] = []
        inv_of: dict[int, int] = {}
        results: dict[int, tuple] = {}
        call_log: list = []

        def model_call(i: int, key: str) -> None:
            now = vtime.now()
            e = model.get(key)
            if e is not None and not (e[1] is not None and e[1] < now):
                model.move_to_end(key)
                inv_of[i] = e[0]
            else:
                model.pop(key, None)
                inv = len(misses)
                misses.append(key)
                model[key] = (inv, None if expiration is None else now + expiration)
                inv_of[i] = inv
                if len(model) > limit:
                    model.popitem(last=False)
            call_log.append((i, key, inv_of[i], now - vtime.START))

        async def caller(i: int):
            if program.get("wrap") == "scoped":
                from haiway import ctx

                async with ctx.scope(f"caller{i}"):
                    await caller_body(i)
            else:
                await caller_body(i)

        async def caller_body(i: int):
            if program.get("variant") == "method-eq":
                model_call(i, f"{keys[i]}@{i % 2}")
                call_ = receivers[i % 2].call
            else:
                model_call(i, keys[i])
                call_ = fn
            km = program.get("keymap")
            try:
                if program.get("kw") and (program["kw"] == "all" or i % 2 == 1):
                    results[i] = ("value", await call_(key=km[keys[i]] if km else keys[i]))  # keyword call form
                else:
                    results[i] = ("value", await call_(km[keys[i]] if km else keys[i]))
            except asyncio.CancelledError:
                results[i] = ("cancelled",)
                raise
            except Exception as exc:  # noqa: BLE001 - the invocation's own error (any class)
                results[i] = ("raised", exc)

        tasks: list[asyncio.Task] = []
        # two small advances (1.25 each, expiration 2): entries created at different instants
        # can expire at different instants; never exactly on the boundary
        adv = {"left": (2 if (len(keys) <= 3 or program.get("instant") or program.get("adv2")) and program["cancels"] <= 1 and program["batch"] == 1 else 1) if expiration is not None else 0}
        step = (1.25 if adv["left"] == 2 else 3.0) * ((expiration / 2) if expiration else 1.0)

        def extra():
            acts = []
            if len(tasks) < n:
                i = len(tasks)

                def start():
                    t = w.task(caller(i), name=f"c{i}")
                    tasks.append(t)
                    w.add_victim(f"c{i}", t)

                acts.append(Action("start", f"c{i}", start))
            if adv["left"] and tasks:

                def advance():
                    adv["left"] -= 1
                    vtime.advance(step)

                acts.append(Action("advance", f"{step:g}", advance))
            return acts

        w.extra_actions = extra
        w.timers_enabled = False
        hang = False
        try:
            w.run()
        except Livelock:
            hang = True
        # ---- oracle ----
        cancelled_req = {name for name, _ in w.cancelled_at}
        if hang or any(not t.done() for t in tasks) or len(tasks) < n:
            viols.append(viol("termination", "caller-hangs", "all callers finish", [t.done() for t in tasks]))
        if [s["key"] for s in started] != misses:
            viols.append(
                viol(
                    "single-flight",
                    "extra-invocation" if len(started) > len(misses) else "invocations-differ",
                    {"invocations": misses, "calls": call_log},
                    [s["key"] for s in started],
                )
            )
        else:
            for i, t in enumerate(tasks):
                if not t.done():
                    continue
                name = f"c{i}"
                r = results.get(i)
                if name in cancelled_req:
                    if not t.cancelled():
                        viols.append(viol("cancel", "cancelled-caller-not-cancelled", "cancelled", repr(r and r[0])))
                    continue
                if t.cancelled() or r is None or r[0] == "cancelled":
                    viols.append(
                        viol("isolation", "bystander-cancelled", f"caller {i} gets its invocation's outcome", "cancelled", calls=call_log, trace=w.trace)
                    )
                    continue
                inv = started[inv_of[i]] if i in inv_of and inv_of[i] < len(started) else None
                if inv is None:
                    continue
                want = inv.get("val") if program["outcome"] == "value" else inv.get("exc")
                if r[1] is not want:
                    viols.append(
                        viol(
                            "delivery",
                            "wrong-invocation",
                            f"outcome of invocation {inv_of[i]}",
                            f"{r[0]} of invocation {getattr(r[1], 'n', None) if r[0] == 'value' else str(r[1])}",
                            calls=call_log,
                        )
                    )
        for s in started:
            if s["saw_cancel"]:
                viols.append(viol("isolation", "invocation-cancelled", "invocation never sees CancelledError", s["n"], trace=w.trace))
            elif not s["done"] and not hang:
                viols.append(viol("termination", "invocation-never-finishes", "done", s["n"]))
        shared = len(inv_of) - len(set(inv_of.values()))
        inflight_cancel = bool(cancelled_req)
        outcome = f"inv={len(started)}/shared={min(shared, 3)}/cancelled={len(cancelled_req)}/hang={hang}"
        obs = {"trace": w.trace, "calls": call_log, "results": {str(i): r[0] for i, r in sorted(results.items())}}
        return Result(outcome, shared > 0 or inflight_cancel, viols, obs)
    finally:
        w.close()
