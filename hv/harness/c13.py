"""C13  Async cache shares one in-flight call; cancelling a waiter harms no one else.

Callers are tasks; the environment starts them, cancels them, completes the underlying
invocations, advances the clock past the expiration - in every order, optionally two events in
the same loop iteration (micro-batching).
"""

import asyncio
import itertools
from collections import OrderedDict

from hv import boot  # noqa: F401
from hv import vtime
from hv.core import Result, viol
from hv.exckit import OWN_CLASSES, make_own
from hv.vloop import Livelock
from hv.world import Action, Chooser, World

from haiway.helpers.caching import cache  # noqa: E402

ID = "C13"
TECHNIQUE = "stateless schedule exploration (DFS, prefix replay) of caller starts / cancellations / invocation completions / expiry on the real async cache, reference LRU of in-flight invocations"
RULE = (
    "2..4 caller tasks over 1..2 keys (5 callers over 3 keys with limit 2 in one sub-family) (cached function and cached method), limit 1..2, expiration none/2, invocation outcome value/"
    "exception, up to 2 cancellations, one or two clock advances (entries expiring at different instants); all interleavings of "
    "{start next caller, cancel caller, complete invocation, advance clock}, with and without two "
    "events in one loop iteration; non-trivial = at least two callers shared one invocation or a "
    "caller was cancelled while its invocation was in flight"
)
ASSUMPTIONS = [
    "callers are started in index order (callers are symmetric up to their key)",
    "clock advances (one of 3, or two of 1.25) never land exactly on the expiration boundary (2)",
]
BOUNDS = {
    "quick": {"callers": [2, 3], "cancels": [0, 1]},
    "thorough": {"callers": [2, 3, 4], "cancels": [0, 1, 2]},
}
EXHAUSTIVE = {"quick": True, "thorough": True}
SAMPLE_EVERY = {"quick": 20000, "thorough": 400000}


class InvErr(Exception):
    pass


class Produced:
    __slots__ = ("n",)

    def __init__(self, n) -> None:
        self.n = n


def _many_waiters(tier: str):
    # MANY callers waiting for ONE in-flight invocation (4..9; thorough 17): all of them get its
    # outcome, whichever of them is cancelled meanwhile, however long the list of waiters grows
    for n in (4, 5, 6, 9) if tier == "quick" else (4, 5, 6, 7, 9, 12, 17):
        for outcome in ("value", "exc"):
            for cancels in (0, 1):
                for variant in ("function", "method"):
                    if variant == "method" and (cancels or n > 6):
                        continue
                    yield {"keys": "a" * n, "limit": 1, "expiration": None, "outcome": outcome, "cancels": cancels, "batch": 1, "variant": variant}
        # ... and a second key arriving in between (limit 2: nothing is evicted; limit 1: the first
        # entry is evicted while its invocation is in flight - the waiters still get its outcome)
        for limit in (1, 2):
            yield {"keys": "aab" + "a" * (n - 3), "limit": limit, "expiration": None, "outcome": "value", "cancels": 0, "batch": 1, "variant": "function"}


def programs(tier: str):
    yield from _many_waiters(tier)
    yield from _five(tier)
    yield from _fine(tier)
    yield from _own_errors(tier)
    yield from _colliding(tier)
    yield from _method_eq(tier)
    yield from _three_keys(tier)
    yield from _wrapped(tier)
    b = BOUNDS[tier]
    for n in b["callers"]:
        for rest in itertools.product("ab", repeat=n - 1):
            keys = "a" + "".join(rest)
            for limit in (1, 2):
                if limit == 2 and "b" not in keys:
                    continue
                for expiration in (None, 2):
                    for outcome in ("value", "exc"):
                        for cancels in b["cancels"]:
                            for batch in (1, 2):
                                if batch == 2 and cancels == 0:
                                    continue
                                if n == 4 and (batch == 2 or cancels == 2) and expiration is not None:
                                    continue  # bounded: see BOUNDS note in evidence
                                for variant in ("function", "method"):
                                    if variant == "method" and (n == 4 or (cancels == 2)):
                                        continue
                                    if variant == "method" and tier == "quick" and (batch == 2 or (n == 3 and expiration is not None)):
                                        continue
                                    yield {
                                        "keys": keys,
                                        "limit": limit,
                                        "expiration": expiration,
                                        "outcome": outcome,
                                        "cancels": cancels,
                                        "batch": batch,
                                        "variant": variant,
                                    }


def _fine(tier: str):
    # a caller cancelled between two loop iterations (e.g. right after it created / joined the
    # shared invocation and before anybody took a step)
    for keys in ("aa", "ab", "aaa"):
        for limit in (1, 2):
            if limit == 2 and "b" not in keys:
                continue
            for outcome in ("value", "exc"):
                for variant in ("function", "method"):
                    yield {"keys": keys, "limit": limit, "expiration": None, "outcome": outcome, "cancels": 1, "batch": 1, "variant": variant, "fine": True}


def _own_errors(tier: str):
    # the shared invocation fails with an exception of a class the cache might handle internally
    # (KeyError, LookupError, TimeoutError ...): every caller gets that very object
    for k in range(len(OWN_CLASSES)):
        for keys in ("aa", "aaa"):
            yield {"keys": keys, "limit": 1, "expiration": None, "outcome": f"own:{k}", "cancels": 0, "batch": 1, "variant": "function"}


def _colliding(tier: str):
    # two different keys whose hashes are equal (-1 and -2): two entries, two invocations
    for keys in ("ab", "aab", "abab"):
        for limit in (1, 2):
            for cancels in (0, 1):
                yield {"keys": keys, "limit": limit, "expiration": None, "outcome": "value", "cancels": cancels, "batch": 1, "variant": "function", "keymap": {"a": -1, "b": -2}}


def _method_eq(tier: str):
    for keys in ("aa", "aaa", "aab", "aaaa"):
        for cancels in (0, 1):
            if keys == "aaaa" and cancels:
                continue
            yield {"keys": keys, "limit": 2, "expiration": None, "outcome": "value", "cancels": cancels, "batch": 1, "variant": "method-eq"}


def _wrapped(tier: str):
    # the cached function stacked under another haiway wrapper / called from inside scopes: sharing
    # and isolation must not depend on it
    for keys in ("aa", "aaa", "aab"):
        for how in ("timeout", "scoped"):
            for cancels in (0, 1):
                yield {"keys": keys, "limit": 1, "expiration": None, "outcome": "value", "cancels": cancels, "batch": 1, "variant": "function", "wrap": how}


def _five(tier: str):
    # five callers, two keys, entries expiring at different instants (a hit in between re-orders
    # the LRU): refreshing the expired key must not disturb the other, still valid one
    for keys in ("ababb", "abaab") if tier == "quick" else ("ababb", "abaab", "abbab", "aabab"):
        for variant in ("function", "method"):
            yield {"keys": keys, "limit": 2, "expiration": 2, "outcome": "value", "cancels": 0, "batch": 1, "variant": variant, "instant": True}


def _three_keys(tier: str):
    # three keys with limit 2: refreshing an expired key while another one is still valid and a
    # third one arrives - the refreshed (in-flight) entry is the most recently used one
    for keys in ("abaca",) if tier == "quick" else ("abaca", "abcab", "abaac"):
        yield {"keys": keys, "limit": 2, "expiration": 2, "outcome": "value", "cancels": 0, "batch": 1, "variant": "function", "adv2": True}


def explore_config(tier: str, program) -> dict:
    heavy = len(program["keys"]) >= 3 and program["cancels"] >= 1
    return {"cap": 400000, "split_depth": 3 if heavy else 0}


def execute(program, ch: Chooser) -> Result:  # noqa: C901, PLR0912, PLR0915
    keys, limit, expiration = program["keys"], program["limit"], program["expiration"]
    n = len(keys)
    w = World(ch, cancel_budget=program["cancels"], batch=program["batch"], fine=program.get("fine", False))
    viols: list[dict] = []
    try:
        started: list[dict] = []  # invocations in start order

        async def body(key):
            if program.get("keymap"):
                key = {v: k for k, v in program["keymap"].items()}[key]  # back to the letter
            rec = {"key": key, "n": len(started), "saw_cancel": False, "done": False}
            started.append(rec)
            try:
                if not program.get("instant"):
                    await w.pause(f"inv{rec['n']}")
            except asyncio.CancelledError:
                rec["saw_cancel"] = True
                raise
            rec["done"] = True
            if program["outcome"] == "exc":
                rec["exc"] = InvErr(f"inv{rec['n']}")
                raise rec["exc"]
            if program["outcome"].startswith("own:"):
                rec["exc"] = make_own(OWN_CLASSES[int(program["outcome"][4:])], f"inv{rec['n']}")
                raise rec["exc"]
            rec["val"] = Produced(rec["n"])
            return rec["val"]

        if program.get("variant", "function") == "method":

            class Owner:
                @cache(limit=limit, expiration=expiration)
                async def call(self, key):
                    return await body(key)

            fn = Owner().call
        elif program.get("variant") == "method-eq":
            # two distinct receivers that compare (and hash) equal: callers alternate between
            # them; each receiver has its own entries and its own in-flight invocations

            class EqOwner:
                def __init__(self, rid):
                    self.rid = rid

                def __eq__(self, other):
                    return isinstance(other, EqOwner)

                def __hash__(self):
                    return 17

                @cache(limit=limit, expiration=expiration)
                async def call(self, key):
                    return await body(f"{key}@{self.rid}")

            receivers = [EqOwner(0), EqOwner(1)]
            fn = None
        else:

            @cache(limit=limit, expiration=expiration)
            async def fn(key):
                return await body(key)

            if program.get("wrap") == "timeout":
                from haiway.helpers.timeouted import timeout

                fn = timeout(1000.0)(fn)

        # reference model, updated at the instant the caller invokes the cached function
        model: OrderedDict = OrderedDict()  # key -> (inv index, expire)
        misses: list[str] = []
        inv_of: dict[int, int] = {}
        results: dict[int, tuple] = {}
        call_log: list = []

        def model_call(i: int, key: str) -> None:
            now = vtime.now()
            e = model.get(key)
            if e is not None and not (e[1] is not None and e[1] < now):
                model.move_to_end(key)
                inv_of[i] = e[0]
            else:
                model.pop(key, None)
                inv = len(misses)
                misses.append(key)
                model[key] = (inv, None if expiration is None else now + expiration)
                inv_of[i] = inv
                if len(model) > limit:
                    model.popitem(last=False)
            call_log.append((i, key, inv_of[i], now - vtime.START))

        async def caller(i: int):
            if program.get("wrap") == "scoped":
                from haiway import ctx

                async with ctx.scope(f"caller{i}"):
                    await caller_body(i)
            else:
                await caller_body(i)

        async def caller_body(i: int):
            if program.get("variant") == "method-eq":
                model_call(i, f"{keys[i]}@{i % 2}")
                call_ = receivers[i % 2].call
            else:
                model_call(i, keys[i])
                call_ = fn
            km = program.get("keymap")
            try:
                results[i] = ("value", await call_(km[keys[i]] if km else keys[i]))
            except asyncio.CancelledError:
                results[i] = ("cancelled",)
                raise
            except Exception as exc:  # noqa: BLE001 - the invocation's own error (any class)
                results[i] = ("raised", exc)

        tasks: list[asyncio.Task] = []
        # two small advances (1.25 each, expiration 2): entries created at different instants
        # can expire at different instants; never exactly on the boundary
        adv = {"left": (2 if (len(keys) <= 3 or program.get("instant") or program.get("adv2")) and program["cancels"] <= 1 and program["batch"] == 1 else 1) if expiration is not None else 0}
        step = 1.25 if adv["left"] == 2 else 3.0

        def extra():
            acts = []
            if len(tasks) < n:
                i = len(tasks)

                def start():
                    t = w.task(caller(i), name=f"c{i}")
                    tasks.append(t)
                    w.add_victim(f"c{i}", t)

                acts.append(Action("start", f"c{i}", start))
            if adv["left"] and tasks:

                def advance():
                    adv["left"] -= 1
                    vtime.advance(step)

                acts.append(Action("advance", f"{step:g}", advance))
            return acts

        w.extra_actions = extra
        w.timers_enabled = False
        hang = False
        try:
            w.run()
        except Livelock:
            hang = True
        # ---- oracle ----
        cancelled_req = {name for name, _ in w.cancelled_at}
        if hang or any(not t.done() for t in tasks) or len(tasks) < n:
            viols.append(viol("termination", "caller-hangs", "all callers finish", [t.done() for t in tasks]))
        if [s["key"] for s in started] != misses:
            viols.append(
                viol(
                    "single-flight",
                    "extra-invocation" if len(started) > len(misses) else "invocations-differ",
                    {"invocations": misses, "calls": call_log},
                    [s["key"] for s in started],
                )
            )
        else:
            for i, t in enumerate(tasks):
                if not t.done():
                    continue
                name = f"c{i}"
                r = results.get(i)
                if name in cancelled_req:
                    if not t.cancelled():
                        viols.append(viol("cancel", "cancelled-caller-not-cancelled", "cancelled", repr(r and r[0])))
                    continue
                if t.cancelled() or r is None or r[0] == "cancelled":
                    viols.append(
                        viol("isolation", "bystander-cancelled", f"caller {i} gets its invocation's outcome", "cancelled", calls=call_log, trace=w.trace)
                    )
                    continue
                inv = started[inv_of[i]] if i in inv_of and inv_of[i] < len(started) else None
                if inv is None:
                    continue
                want = inv.get("val") if program["outcome"] == "value" else inv.get("exc")
                if r[1] is not want:
                    viols.append(
                        viol(
                            "delivery",
                            "wrong-invocation",
                            f"outcome of invocation {inv_of[i]}",
                            f"{r[0]} of invocation {getattr(r[1], 'n', None) if r[0] == 'value' else str(r[1])}",
                            calls=call_log,
                        )
                    )
        for s in started:
            if s["saw_cancel"]:
                viols.append(viol("isolation", "invocation-cancelled", "invocation never sees CancelledError", s["n"], trace=w.trace))
            elif not s["done"] and not hang:
                viols.append(viol("termination", "invocation-never-finishes", "done", s["n"]))
        shared = len(inv_of) - len(set(inv_of.values()))
        inflight_cancel = bool(cancelled_req)
        outcome = f"inv={len(started)}/shared={min(shared, 3)}/cancelled={len(cancelled_req)}/hang={hang}"
        obs = {"trace": w.trace, "calls": call_log, "results": {str(i): r[0] for i, r in sorted(results.items())}}
        return Result(outcome, shared > 0 or inflight_cancel, viols, obs)
    finally:
        w.close()
