"""C08  Disposables are entered once, exited once, and their cleanup errors surface.

One async scope with 0..k instrumented disposables (enter/exit in {ok, raise, suspend->ok,
suspend->raise}, yields none/one/several states), body return / raise / cancelled; the controller
explores every completion order of the suspended enters/exits and every cancellation point.
"""

import asyncio
import itertools

from hv import boot  # noqa: F401
from hv.core import Result, viol
from hv.scopeprog import BodyErr, Run
from hv.world import Chooser

ID = "C08"
TECHNIQUE = "stateless schedule + fault exploration (DFS, prefix replay) of disposable enter/exit completions and one cancellation on the real scope, call-log oracle"
RULE = (
    "scopes with 0..k disposables, each enter/exit in {ok, raise, suspend then ok, suspend then "
    "raise} (+ exit raising a non-Exception BaseException) and yielding none/one/two states (multisets: disposables are symmetric), body in "
    "{return, raise, cancelled at any quiescent point incl. during enter and exit}; every "
    "completion order; plus ONE Disposables object (two disposables) used by 2-3 consecutive scopes with per-use behaviours; non-trivial = some enter or exit fails or suspends, or the body does not "
    "return normally"
)
RULE += ' Rounds 10-13: MANY disposables (4-9 (17)), one / two positions misbehaving; the disposables argument as tuple / generator / iterator / Disposables object; consecutive scopes with equal but distinct disposables.'
ASSUMPTIONS = [
    "an exit error counts as surfaced when it is the caller's exception, a member of its exception "
    "group (recursively), or on its __context__/__cause__ chain",
    "disposables do not swallow cancellation",
    "a cancellation delivered while disposables are being exited (also during roll-back) leaves 'cleanup errors "
    "surface' unspecified (the statement quantifies over body outcomes); all other clauses apply",
]
BOUNDS = {
    "quick": {"max_disposables": 2, "plus": "3 disposables without yielded state"},
    "thorough": {"max_disposables": 3, "plus": "4 disposables with at most 2 non-default behaviours"},
}
EXHAUSTIVE = {"quick": True, "thorough": True}
SAMPLE_EVERY = {"quick": 2500, "thorough": 60000}

MODES = ["ok", "raise", "susp_ok", "susp_raise"]


def _behaviours(full_yields: bool):
    ys = ["none", "one", "two"] if full_yields else ["none", "one"]
    return [{"enter": e, "exit": x, "yields": y} for e in MODES for x in MODES for y in ys]


def programs(tier: str):
    yield from _reuse_programs(tier)
    kmax = BOUNDS[tier]["max_disposables"]
    bodies = [("return", 0), ("raise", 0), ("return", 1)]
    for k in range(0, kmax + 1):
        if k <= 2 or (tier == "thorough" and k == 3):
            beh = _behaviours(True)
        else:
            beh = [b for b in _behaviours(False) if b["yields"] == "none" or (b["enter"] == "ok" and b["exit"] == "ok")]
        for combo in itertools.combinations_with_replacement(range(len(beh)), k):
            for ending, cancels in bodies:
                yield {
                    "block": {
                        "kind": "ascope",
                        "supply": [],
                        "disp": [dict(beh[i]) for i in combo],
                        "pause": bool(cancels),
                        "ending": ending,
                    },
                    "cancels": cancels,
                }
    if tier == "quick":
        # three disposables (multisets), no yielded state, body returns or raises: e.g. two failing
        # enters + one entered disposable whose roll-back exit fails as well
        beh3 = [b for b in _behaviours(False) if b["yields"] == "none"]
        for combo in itertools.combinations_with_replacement(range(len(beh3)), 3):
            for ending, cancels in bodies:
                yield {"block": {"kind": "ascope", "supply": [], "disp": [dict(beh3[i]) for i in combo], "pause": bool(cancels), "ending": ending}, "cancels": cancels}
    # MANY disposables (4, 5, 6, 9; thorough 13, 17): all well-behaved except one position (every
    # position x every behaviour) or two positions (first/last, neighbours, first/middle x a reduced
    # behaviour set): an implementation that enters / exits in batches must treat every batch alike
    behm = [b for b in _behaviours(False) if b["yields"] == "none"]
    okb = {"enter": "ok", "exit": "ok", "yields": "none"}
    small = [b for b in behm if (b["enter"], b["exit"]) in (("ok", "raise"), ("raise", "ok"), ("susp_ok", "ok"), ("ok", "susp_ok"), ("ok", "susp_raise"))]
    for k in (4, 5, 6, 9) if tier == "quick" else (4, 5, 6, 7, 9, 13, 17):
        for pos in range(k):
            for b in behm:
                if b["enter"] == "ok" and b["exit"] == "ok":
                    continue
                for ending, cancels in bodies:
                    if k == 9 and tier == "quick" and pos not in (0, 2, 3, 4, 7, 8):
                        continue
                    disp = [dict(okb) for _ in range(k)]
                    disp[pos] = dict(b)
                    yield {"block": {"kind": "ascope", "supply": [], "disp": disp, "pause": bool(cancels), "ending": ending}, "cancels": cancels}
        for p1, p2 in {(0, k - 1), (0, 1), (k - 2, k - 1), (0, k // 2), (2, 3), (3, 4 % k)}:
            if p1 == p2:
                continue
            for b1 in small:
                for b2 in small:
                    for ending, cancels in bodies:
                        if cancels and tier == "quick" and k > 5:
                            continue
                        disp = [dict(okb) for _ in range(k)]
                        disp[p1], disp[p2] = dict(b1), dict(b2)
                        yield {"block": {"kind": "ascope", "supply": [], "disp": disp, "pause": bool(cancels), "ending": ending}, "cancels": cancels}
        # one of many yields a state
        for pos in (0, k - 1, 3):
            disp = [dict(okb) for _ in range(k)]
            disp[pos] = {"enter": "ok", "exit": "ok", "yields": "one"}
            yield {"block": {"kind": "ascope", "supply": [], "disp": disp, "pause": False, "ending": "return"}, "cancels": 0}
    # ONE disposable yielding a dozen states of distinct types (alone, next to others)
    from hv.ctxkit import WIDE as _WIDE

    for others in (0, 1, 3):
        for ending in ("return", "raise"):
            disp = [{"enter": "ok", "exit": "ok", "yields": "many"}] + [{"enter": "ok", "exit": "ok", "yields": "none"} for _ in range(others)]
            yield {"block": {"kind": "ascope", "supply": [], "disp": disp, "pause": False, "ending": ending}, "cancels": 0, "probe_types": ["A", "R", *_WIDE]}
    # scope names containing formatting characters (the library logs around entering / leaving)
    for suffix in (" 100%", " %s %(x)s"):
        for k in (1, 2):
            for bad in (None, ("ok", "raise")):
                for ending, cancels in bodies:
                    disp = [{"enter": "ok", "exit": "ok", "yields": "one" if k == 1 else "none"} for _ in range(k)]
                    if bad:
                        disp[-1] = {"enter": bad[0], "exit": bad[1], "yields": "none"}
                    yield {"block": {"kind": "ascope", "supply": [], "disp": disp, "pause": bool(cancels), "ending": ending}, "cancels": cancels, "scope_name_suffix": suffix}
    # the `disposables=` argument in its other legal forms: a tuple, a one-shot generator / iterator,
    # a Disposables object built by the caller
    for form in ("tuple", "generator", "iterator", "object"):
        for k in (1, 2, 3):
            for yields in ("none", "one"):
                for bad in (None, ("ok", "raise"), ("raise", "ok")):
                    for ending, cancels in bodies:
                        disp = [{"enter": "ok", "exit": "ok", "yields": yields} for _ in range(k)]
                        if bad:
                            disp[-1] = {"enter": bad[0], "exit": bad[1], "yields": "none"}
                        yield {"block": {"kind": "ascope", "supply": [], "disp": disp, "disp_form": form, "pause": bool(cancels), "ending": ending}, "cancels": cancels}
    # two events in one loop iteration (two disposables finishing a step, or one of them and the
    # cancellation of the body)
    beh2 = [b for b in _behaviours(False) if b["yields"] == "none"]
    for combo in itertools.combinations_with_replacement(range(len(beh2)), 2):
        if not any(beh2[i]["enter"].startswith("susp") or beh2[i]["exit"].startswith("susp") for i in combo):
            continue
        for ending, cancels in bodies:
            yield {"block": {"kind": "ascope", "supply": [], "disp": [dict(beh2[i]) for i in combo], "pause": bool(cancels), "ending": ending}, "cancels": cancels, "batch": 2}
    # a disposable whose exit returns True ("handled"): the body's outcome still reaches the caller
    for ending, cancels in bodies:
        for other in (None, ("ok", "ok"), ("ok", "raise")):
            disp = [{"enter": "ok", "exit": "ok", "yields": "none", "handles": True}]
            if other:
                disp.append({"enter": other[0], "exit": other[1], "yields": "none"})
            yield {"block": {"kind": "ascope", "supply": [], "disp": disp, "pause": bool(cancels), "ending": ending}, "cancels": cancels}
    # the cancellation of the body injected between two loop iterations
    beh_f = [b for b in _behaviours(False) if b["yields"] == "none"]
    for k in (1, 2):
        for combo in itertools.combinations_with_replacement(range(len(beh_f)), k):
            yield {"block": {"kind": "ascope", "supply": [], "disp": [dict(beh_f[i]) for i in combo], "pause": True, "ending": "return"}, "cancels": 1, "fine": True}
    # states yielded as a non-sequence iterable (generator, dict view)
    for y in ("gen", "values", "falsy"):
        for other in (None, {"enter": "ok", "exit": "ok", "yields": "one"}):
            disp = [{"enter": "ok", "exit": "ok", "yields": y}] + ([dict(other)] if other else [])
            yield {"block": {"kind": "ascope", "supply": [], "disp": disp, "pause": False, "ending": "return"}, "cancels": 0}
    # distinct disposables that compare equal ("twins"): one fails / is still entering when the
    # scope is cancelled, the other one entered - only the entered one is exited
    for first in MODES:
        for second in MODES:
            if first == "ok" and second == "ok":
                continue
            for ending, cancels in bodies:
                yield {
                    "block": {
                        "kind": "ascope",
                        "supply": [],
                        "disp": [
                            {"enter": first, "exit": "ok", "yields": "none", "twin": True},
                            {"enter": second, "exit": "ok", "yields": "none", "twin": True},
                        ],
                        "pause": bool(cancels),
                        "ending": ending,
                    },
                    "cancels": cancels,
                }
    # a clean-up that fails with a BaseException which is not an Exception
    for other in ("ok", "raise", "susp_ok"):
        for ending, cancels in bodies:
            for k in (1, 2):
                disp = [{"enter": "ok", "exit": "raise_base", "yields": "none"}]
                if k == 2:
                    disp.append({"enter": "ok", "exit": other, "yields": "none"})
                elif other != "ok":
                    continue
                yield {"block": {"kind": "ascope", "supply": [], "disp": disp, "pause": bool(cancels), "ending": ending}, "cancels": cancels}
    # an enter that fails with a BaseException which is not an Exception: the others are rolled back
    for other in (None, ("ok", "ok"), ("ok", "raise"), ("raise", "ok"), ("susp_ok", "ok"), ("susp_raise", "ok"), ("ok", "susp_raise")):
        for ending in ("return", "raise"):
            disp = [{"enter": "raise_base", "exit": "ok", "yields": "none"}]
            if other:
                disp.append({"enter": other[0], "exit": other[1], "yields": "none"})
            yield {"block": {"kind": "ascope", "supply": [], "disp": disp, "pause": False, "ending": ending}, "cancels": 0}
            if other:
                yield {"block": {"kind": "ascope", "supply": [], "disp": list(reversed(disp)), "pause": False, "ending": ending}, "cancels": 0}
    # roll-back whose clean-up fails with a non-Exception BaseException: it surfaces as well
    for failing in ("raise", "susp_raise", "raise_base"):
        for ent in ("ok", "susp_ok"):
            for third in (None, ("ok", "raise")):
                disp = [{"enter": failing, "exit": "ok", "yields": "none"}, {"enter": ent, "exit": "raise_base", "yields": "none"}]
                if third:
                    disp.append({"enter": third[0], "exit": third[1], "yields": "none"})
                yield {"block": {"kind": "ascope", "supply": [], "disp": disp, "pause": False, "ending": "return"}, "cancels": 0}
                yield {"block": {"kind": "ascope", "supply": [], "disp": list(reversed(disp)), "pause": False, "ending": "return"}, "cancels": 0}
    if tier == "thorough":
        default = {"enter": "ok", "exit": "ok", "yields": "none"}
        beh = [b for b in _behaviours(False) if b != default and b["yields"] == "none"]
        for i, j in itertools.combinations_with_replacement(range(len(beh)), 2):
            for ending, cancels in bodies:
                yield {
                    "block": {
                        "kind": "ascope",
                        "supply": [],
                        "disp": [dict(default), dict(beh[i]), dict(default), dict(beh[j])],
                        "pause": bool(cancels),
                        "ending": ending,
                    },
                    "cancels": cancels,
                }


def explore_config(tier: str, program) -> dict:
    return {"cap": 300000}


# per-use behaviour of the pair (A, B) of disposables in the "reuse" family
_REUSE_B = [(e, x) for e in ("ok", "raise") for x in ("ok", "raise")]
_REUSE_SMALL = [
    {"A": ("ok", "ok"), "B": ("ok", "ok"), "ending": "return"},
    {"A": ("ok", "ok"), "B": ("ok", "ok"), "ending": "raise"},
    {"A": ("ok", "raise"), "B": ("ok", "ok"), "ending": "return"},
    {"A": ("ok", "ok"), "B": ("raise", "ok"), "ending": "return"},
    {"A": ("ok", "raise"), "B": ("ok", "raise"), "ending": "return"},
    {"A": ("susp", "ok"), "B": ("ok", "ok"), "ending": "return"},
]


def _reuse_programs(tier: str):
    # ONE Disposables object used by consecutive scopes: every use enters and exits afresh,
    # whatever happened in the uses before (failed enter, failed cleanup, cancellation)
    full = [{"A": a, "B": b, "ending": e} for a in _REUSE_B for b in _REUSE_B for e in ("return", "raise")]
    for u1 in full:
        for u2 in full:
            yield {"reuse": [u1, u2], "cancels": 0}
    for e1 in ("return", "raise"):
        for e2 in ("return", "raise"):
            yield {"reuse": [{"ending": e1}, {"ending": e2}], "cancels": 0, "two_worlds": True}
    # consecutive scopes, each with its OWN disposables that compare equal to the previous scope's
    for u1 in _REUSE_SMALL:
        for u2 in _REUSE_SMALL:
            yield {"reuse": [u1, u2], "cancels": 0, "fresh_equal": True}
            yield {"reuse": [u1, u2, _REUSE_SMALL[0]], "cancels": 0, "fresh_equal": True}
    for u1 in _REUSE_SMALL:
        for u2 in _REUSE_SMALL:
            for u3 in _REUSE_SMALL:
                yield {"reuse": [u1, u2, u3], "cancels": 0}
            if any(v[0] == "susp" for v in (u1["A"], u2["A"])):
                yield {"reuse": [u1, u2, _REUSE_SMALL[0]], "cancels": 1}
                # ... and the task handles the cancellation without withdrawing the request
                # (Task.cancelling() stays 1 while it goes on with the next scopes)
                yield {"reuse": [u1, u2, _REUSE_SMALL[0]], "cancels": 1, "keep_request": True}


class _ReuseErr(Exception):
    pass


def _reuse_two_worlds(program, ch: Chooser) -> Result:
    """ONE Disposables object, built before any loop runs, used by a scope under a first event loop
    and by another scope under a second one (module-level resources and two asyncio.run calls)"""
    from haiway import Disposables, ctx
    from hv.core import task_failure
    from hv.vloop import Livelock
    from hv.world import World

    uses = program["reuse"]
    viols: list[dict] = []
    log: list = []
    counts = {"A": [0, 0], "B": [0, 0]}  # [entered, exited] per disposable in the current use

    class D:
        def __init__(self, name):
            self.name = name

        async def __aenter__(self):
            counts[self.name][0] += 1
            log.append(f"{self.name}:enter")
            return None

        async def __aexit__(self, et, ev, tb):
            counts[self.name][1] += 1
            log.append(f"{self.name}:exit")

    shared = Disposables(D("A"), D("B"))
    for u, spec in enumerate(uses):
        counts["A"][:] = [0, 0]
        counts["B"][:] = [0, 0]
        w = World(ch)
        out: dict = {}
        try:

            async def driver(spec=spec, out=out):
                try:
                    async with ctx.scope("use", disposables=shared):
                        if spec["ending"] == "raise":
                            raise BodyErr("body")
                    out["caught"] = None
                except BaseException as exc:  # noqa: BLE001
                    out["caught"] = exc

            t = w.task(driver(), name=f"driver{u}")
            try:
                w.run()
            except Livelock:
                pass
            witness = f"reuse/loop{u + 1}-of-{len(uses)}"
            if task_failure(t) is not None:
                viols.append(viol("termination", witness, "finishes", task_failure(t)))
                continue
            for name in ("A", "B"):
                if counts[name] != [1, 1]:
                    viols.append(viol("exit-once", f"{witness}/{name}", "entered once and exited once in this use", list(counts[name]), log=list(log)))
            want = "BodyErr" if spec["ending"] == "raise" else None
            got = type(out.get("caught")).__name__ if out.get("caught") is not None else None
            if got != want:
                viols.append(viol("cleanup-error-surfaces", f"{witness}/outcome", want, f"{got}: {out.get('caught')}"[:120]))
        finally:
            w.close()
    return Result(f"reuse/two-worlds/{len(uses)}", True, viols, {"log": log[:20]}, steps=len(uses))


def _reuse(program, ch: Chooser) -> Result:  # noqa: C901, PLR0912, PLR0915
    from haiway import Disposables, ctx
    from hv.vloop import Livelock
    from hv.world import World

    uses = program["reuse"]
    if program.get("two_worlds"):
        return _reuse_two_worlds(program, ch)
    w = World(ch, cancel_budget=program["cancels"])
    viols: list[dict] = []
    cur = [0]
    log: list = []

    class D:
        def __init__(self, name: str) -> None:
            self.name = name
            self.entered: dict[int, int] = {}
            self.enter_ok: dict[int, bool] = {}
            self.exited: dict[int, list] = {}
            self.errors: dict[int, BaseException] = {}

        async def __aenter__(self):
            u = cur[0]
            self.entered[u] = self.entered.get(u, 0) + 1
            mode = uses[u][self.name][0]
            log.append(f"u{u}:{self.name}:enter:{mode}")
            if mode == "susp":
                await w.pause(f"u{u}.{self.name}.enter")
            if mode == "raise":
                raise _ReuseErr(f"u{u}.{self.name}.enter")
            self.enter_ok[u] = True
            return None

        async def __aexit__(self, et, ev, tb):
            u = cur[0]
            self.exited.setdefault(u, []).append(et.__name__ if et else None)
            log.append(f"u{u}:{self.name}:exit:{et.__name__ if et else None}")
            if uses[u][self.name][1] == "raise":
                self.errors[u] = _ReuseErr(f"u{u}.{self.name}.exit")
                raise self.errors[u]

    fresh = bool(program.get("fresh_equal"))
    if fresh:
        # every use gets its OWN pair of disposables - distinct objects that compare (and hash)
        # equal to the pair of the use before (value-semantics resources, e.g. a pool per DSN)
        D.__eq__ = lambda self, other: isinstance(other, D) and other.name == self.name  # type: ignore[method-assign]
        D.__hash__ = lambda self: hash(("D", self.name))  # type: ignore[method-assign]
    pairs = {u: (D("A"), D("B")) for u in range(len(uses))} if fresh else None
    a, b = D("A"), D("B")
    shared = Disposables(a, b)
    caught: dict[int, BaseException | None] = {}
    body_exc: dict[int, BaseException] = {}
    cancelled_use: list[int] = []
    try:

        async def driver():
            for u, spec in enumerate(uses):
                cur[0] = u
                try:
                    async with ctx.scope(f"use{u}", disposables=list(pairs[u]) if pairs else shared):
                        if spec["ending"] == "raise":
                            body_exc[u] = BodyErr(f"u{u}")
                            raise body_exc[u]
                    caught[u] = None
                except asyncio.CancelledError as exc:
                    caught[u] = exc
                    cancelled_use.append(u)
                    if not program.get("keep_request"):
                        asyncio.current_task().uncancel()
                except BaseException as exc:  # noqa: BLE001
                    caught[u] = exc

        t = w.task(driver(), name="driver", victim=bool(program["cancels"]))
        try:
            w.run()
        except Livelock:
            viols.append(viol("termination", "reuse/driver-hangs", "finishes", w.trace[-4:]))
        from hv.core import task_failure

        if task_failure(t) is not None:
            viols.append(viol("termination", "reuse/driver", "finishes", task_failure(t)))
        for u, spec in enumerate(uses):
            if u not in caught:
                continue
            first = "first-use" if u == 0 else f"use{u + 1}-after-" + "+".join(
                ("cancelled" if p in cancelled_use else ("enter-failed" if "raise" in (uses[p]["A"][0], uses[p]["B"][0]) else ("cleanup-failed" if "raise" in (uses[p]["A"][1], uses[p]["B"][1]) else "clean")))
                for p in range(u)
            )
            was_cancelled = u in cancelled_use
            if pairs:
                a, b = pairs[u]
            all_entered = a.enter_ok.get(u, False) and b.enter_ok.get(u, False)
            for d in (a, b):
                if d.entered.get(u, 0) != 1 and not was_cancelled:
                    viols.append(viol("enter-once", f"reuse/{first}", f"{d.name} entered once in this use", d.entered.get(u, 0), log=log))
                n_exit = len(d.exited.get(u, []))
                if d.enter_ok.get(u, False):
                    if n_exit != 1:
                        viols.append(viol("exit-once", f"reuse/{first}", f"{d.name} entered in this use: exited exactly once", n_exit, log=log))
                elif n_exit != 0 and d.entered.get(u, 0) <= 1 and not was_cancelled:
                    viols.append(viol("exit-once", f"reuse/not-entered-but-exited/{first}", f"{d.name} did not enter in this use: not exited", n_exit, log=log))
                if all_entered and n_exit == 1 and not was_cancelled:
                    want = "BodyErr" if spec["ending"] == "raise" else None
                    if d.exited[u][0] != want:
                        viols.append(viol("exit-args", f"reuse/{first}", want, d.exited[u][0], log=log))
            if was_cancelled:
                continue
            errs = [d.errors[u] for d in (a, b) if u in d.errors]
            enter_failed = "raise" in (spec["A"][0], spec["B"][0])
            if not errs and not enter_failed:
                if caught[u] is not body_exc.get(u):
                    viols.append(viol("cleanup-error-surfaces", f"reuse/outcome/{first}", "the body's own outcome", repr(caught[u])[:100], log=log))
            else:
                if caught[u] is None:
                    viols.append(viol("cleanup-error-surfaces", f"reuse/silent/{first}", "an exception", "none", log=log))
                for e in errs:
                    if caught[u] is not None and not _reaches(caught[u], e):
                        viols.append(viol("cleanup-error-surfaces", f"reuse/lost/{first}", f"{e} reachable from the caller's exception", repr(caught[u])[:100], log=log))
        from hv.core import raised_in_library

        for u in sorted(caught):
            hit = raised_in_library(caught[u])
            if hit:
                viols.append(viol("unexpected-exception", hit, "the use ends with its body's / its disposables' exception", repr(caught[u])[:120], log=log))
                break
        interesting = len(uses) > 1 and any("raise" in (s_["A"] + s_["B"]) or s_["ending"] == "raise" for s_ in uses[:-1])
        return Result(f"reuse/{len(uses)}/cancelled={len(cancelled_use)}", interesting or bool(cancelled_use), viols[:6], {"log": log[:40], "trace": w.trace})
    finally:
        w.close()


def _reaches(caught, target) -> bool:
    seen = set()
    stack = [caught]
    while stack:
        e = stack.pop()
        if e is None or id(e) in seen:
            continue
        seen.add(id(e))
        if e is target:
            return True
        if isinstance(e, BaseExceptionGroup):
            stack.extend(e.exceptions)
        stack.append(e.__context__)
        stack.append(e.__cause__)
    return False


def execute(program, ch: Chooser) -> Result:  # noqa: C901, PLR0912, PLR0915
    if "reuse" in program:
        return _reuse(program, ch)
    r = Run(program, ch, cancels=program["cancels"], batch=program.get("batch", 1), fine=program.get("fine", False))
    viols: list[dict] = []
    try:
        r.execute()
        ds = r.disp.get(0, [])
        caught = r.caught.get(0)
        cancelled = bool(r.w.cancelled_at)
        obs = {
            "trace": r.w.trace,
            "events": [list(e) for e in r.events],
            "caught": type(caught).__name__ if caught else None,
        }
        if r.hang or r.driver is None or not r.driver.done():
            viols.append(viol("termination", "scope-hangs", "driver finishes", obs["events"][-4:]))
            return Result("hang", True, viols, obs)
        names = [e[0] for e in r.events]
        body_idx = next((i for i, e in enumerate(r.events) if e[0] == "body"), None)
        # 1. entered exactly once, all before the body
        for d in ds:
            if d.entered != 1:
                # a cancellation that lands before __aenter__ could start entering is the only excuse
                if not (d.entered == 0 and cancelled):
                    viols.append(viol("enter-once", f"entered={d.entered}", 1, d.entered, disposable=d.name))
        if body_idx is not None:
            late = [e for e in r.events[body_idx:] if e[0] == "d-enter-start"]
            if late:
                viols.append(viol("enter-before-body", "late-enter", "all enters before the body", late))
        all_entered = all(d.enter_done == 1 for d in ds)
        any_enter_failed = any(e[0] == "d-enter-end" and e[2] in ("raise", "cancelled") for e in r.events)
        if all_entered and not any_enter_failed and body_idx is None and not cancelled:
            viols.append(viol("body-runs", "body-skipped", "body runs", "never ran"))
        if any_enter_failed and body_idx is not None:
            viols.append(viol("body-runs", "body-ran-after-enter-failure", "body never runs", "ran"))
        # 2. body saw every yielded state
        if body_idx is not None:
            for tag, visible in r.body_state.get(0, {}).get("yielded_visible", []):
                if not visible:
                    viols.append(viol("state-visible", "yielded-state-hidden", "visible in body", tag))
        # 3. exits: exactly once for every disposable whose enter completed; none for the others
        for d in ds:
            want = 1 if d.enter_done == 1 else 0
            if d.exited != want:
                kind = (
                    "entered-never-exited"
                    if d.exited < want
                    else ("exited-twice" if d.enter_done else "exited-without-enter")
                )
                viols.append(
                    viol(
                        "exit-once",
                        f"{kind}/{'enter-failed' if any_enter_failed else 'body-' + ('ran' if body_idx is not None else 'skipped')}",
                        want,
                        d.exited,
                        disposable=d.name,
                        events=obs["events"],
                    )
                )
            if d.in_enter:
                viols.append(viol("enter-finished", "still-entering-after-scope-left", "not inside __aenter__", d.name))
        # 4. exit receives the body's exception details
        if body_idx is not None and all_entered:
            raised = r.raised.get(0)
            for d in ds:
                for et, ev, tb in d.exit_args:
                    if raised is not None:
                        ok = et is type(raised) and ev is raised and tb is raised.__traceback__
                        want = "body exception triple"
                    elif cancelled and r.cancel_phases[0] == ("body", 0):
                        ok = et is asyncio.CancelledError and isinstance(ev, asyncio.CancelledError)
                        want = "CancelledError triple"
                    elif cancelled:
                        ok = True  # cancelled during exit itself / before the body: details depend on timing
                        want = "-"
                    else:
                        ok = et is None and ev is None and tb is None
                        want = "(None, None, None)"
                    if not ok:
                        viols.append(
                            viol("exit-details", want, want, [getattr(et, "__name__", None), repr(ev)[:60], tb is not None], disposable=d.name)
                        )
        # 5. cleanup errors surface
        cancel_in_exit = cancelled and (r.cancel_phases[0][0] == "exiting" or r.cancel_in_cleanup[0])
        for exc in r.exit_errors.get(0, []):
            if cancel_in_exit:
                break  # cancellation of the cleanup itself: outside the statement's quantifier
            if not _reaches(caught, exc):
                n = len(r.exit_errors.get(0, []))
                viols.append(
                    viol(
                        "cleanup-error-surfaces",
                        f"{'single' if n == 1 else 'several'}-exit-error/body-{program['block']['ending']}{'-cancelled' if cancelled else ''}",
                        f"{exc} reaches the caller",
                        f"caller got {type(caught).__name__ if caught else 'no exception'}",
                    )
                )
                break
        # the body's own exception is not lost either (unless cleanup failed)
        raised = r.raised.get(0)
        if raised is not None and body_idx is not None and not r.exit_errors.get(0) and caught is not raised:
            viols.append(viol("body-exception", "replaced", "the body's exception object", repr(caught)[:80]))
        failing = sum(1 for d in ds if "raise" in d.spec["enter"] or "raise" in d.spec["exit"])  # incl. raise_base
        susp = sum(1 for d in ds if "susp" in d.spec["enter"] or "susp" in d.spec["exit"])
        nontrivial = failing > 0 or susp > 0 or raised is not None or cancelled
        outcome = f"k={len(ds)}/fail={min(failing, 2)}/susp={min(susp, 2)}/body={'ran' if body_idx is not None else 'skipped'}/caught={type(caught).__name__ if caught else None}/c={cancelled}"
        viols.extend(r.library_errors())
        return Result(outcome, nontrivial, viols[:5], obs)
    finally:
        r.close()


