"""C09  Scope completion fires exactly once, after the whole subtree has been left.

Programs are rooted ordered scope trees; every non-root node is placed inline, ctx.spawn'ed or
started with plain create_task; a pause before each create-and-enter and before each exit lets the
controller enumerate every linearisation of enter/exit events the placement permits (including a
child created after its parent has been left and completed).
"""

import asyncio
import itertools

from hv import boot  # noqa: F401
from hv import vtime
from hv.core import Result, viol
from hv.ctxkit import Disp
from hv.vloop import Livelock
from hv.world import Chooser, World

from haiway import ctx  # noqa: E402

ID = "C09"
TECHNIQUE = "stateless exploration (DFS, prefix replay) of every linearisation of scope enter/exit events over scope trees on the real metrics/completion protocol; event-order oracle"
RULE = (
    "all rooted ordered scope trees with <= N nodes x scope kind (sync/async) x completion "
    "callback kind (all sync / alternating sync-async / decorated: functools.wraps async wrapper, functools.partial) x placement of every non-root node "
    "{inline, ctx.spawn, plain create_task}; every linearisation of the enter/exit events, for <= 3 nodes also with two events in one loop iteration; plus a "
    "nested scope whose suspended disposable enter is cancelled; "
    "non-trivial = some child runs in another task than its parent"
)
RULE += ' Rounds 10-11: 4-node trees with two task-placed nodes; stars with 4-9 (12) children and chains of 5-8 (10) scopes; nested scopes given an own trace id / logger. Round 16: all trees with <= 3 nodes with every nested / every scope left with an exception. Round 15: a clean-up scope opened in the cancellation handler of a cancelled task-placed scope.'
ASSUMPTIONS = [
    "a scope nested under X counts for X's completion if it was created before X's callback fired "
    "(not if it was created after X was left, within the run of the loop in which X completed: the "
    "callback is invoked through the loop)",
    "virtual clock advances 1/8 at every environment action (so measured times differ)",
]
BOUNDS = {"quick": {"N": 3}, "thorough": {"N": 4, "plus": "N=5 chains/stars with <= 2 task-placed nodes; failing enter"}}
EXHAUSTIVE = {"quick": True, "thorough": True}
SAMPLE_EVERY = {"quick": 3000, "thorough": 90000}


def tree_shapes(n: int):
    """rooted ordered trees with n nodes as nested child lists"""
    if n == 1:
        yield []
        return
    # children forest has n-1 nodes
    from hv.ctxkit import forest_shapes

    yield from forest_shapes(n - 1)


def _label(shape, labels):
    it = iter(labels)

    def go(children):
        lab = next(it)
        return {"kind": lab[0], "place": lab[1], "c": [go(c) for c in children]}

    return go(shape)


def programs(tier: str):
    nmax = BOUNDS[tier]["N"]
    for n in range(1, nmax + 1):
        for shape in tree_shapes(n):
            # root has no placement
            for kinds in itertools.product(("a", "s"), repeat=n):
                for places in itertools.product(("inline", "spawn", "create"), repeat=n - 1):
                    for cb in ("sync", "alt"):
                        if n == nmax and nmax >= 4 and cb == "alt" and places.count("inline") == n - 1:
                            continue
                        labels = [(kinds[0], "root")] + [(kinds[i], places[i - 1]) for i in range(1, n)]
                        yield {"tree": _label(shape, labels), "cb": cb}
    # completion handlers that are decorated callables (async functools.wraps wrapper around a sync
    # function; functools.partial)
    for n in (1, 2, 3):
        for shape in tree_shapes(n):
            for places in itertools.product(("inline", "create"), repeat=n - 1):
                labels = [("a", "root")] + [("a" if i % 2 else "s", places[i - 1]) for i in range(1, n)]
                yield {"tree": _label(shape, labels), "cb": "wrapped"}
                yield {"tree": _label(shape, labels), "cb": "callables"}
    # two enter / exit events landing in one loop iteration (a scope is left in the very iteration
    # in which a task that inherited its context creates a nested one), trees with <= 3 nodes and
    # at least one task-placed node
    for n in (2, 3):
        for shape in tree_shapes(n):
            for kinds in itertools.product(("a", "s"), repeat=n):
                for places in itertools.product(("inline", "spawn", "create"), repeat=n - 1):
                    if all(p == "inline" for p in places):
                        continue
                    labels = [(kinds[0], "root")] + [(kinds[i], places[i - 1]) for i in range(1, n)]
                    yield {"tree": _label(shape, labels), "cb": "sync", "batch": 2}
    # a nested scope whose (suspended) disposable enter is cancelled: the scope is rolled back and
    # must not keep its ancestors from completing
    for place in ("spawn", "create"):
        for rk in ("a", "s"):
            yield {
                "tree": {"kind": rk, "place": "root", "c": [{"kind": "a", "place": place, "c": []}]},
                "cb": "alt",
                "cancel_enter": 1,
            }
        yield {
            "tree": {"kind": "a", "place": "root", "c": [{"kind": "a", "place": "inline", "c": [{"kind": "a", "place": place, "c": []}]}]},
            "cb": "sync",
            "cancel_enter": 2,
        }
    # a (task-placed) nested scope whose body is cancelled: it is left by the cancellation and still
    # completes exactly once, and so do its ancestors
    for place in ("spawn", "create"):
        yield {
            "tree": {"kind": "a", "place": "root", "c": [{"kind": "a", "place": place, "c": []}]},
            "cb": "alt",
            "cancel_body": 1,
        }
        yield {
            "tree": {"kind": "a", "place": "root", "c": [{"kind": "a", "place": place, "c": [{"kind": "s", "place": "inline", "c": []}]}]},
            "cb": "sync",
            "cancel_body": 1,
        }
    # scopes LEFT WITH AN EXCEPTION (every nested scope, or every scope): a failed scope still counts
    # for its ancestors, and scopes opened later by tasks that inherited its context still count
    for which in ("nested", "all"):
        for n in (2, 3):
            for shape in tree_shapes(n):
                for kinds in itertools.product(("a", "s"), repeat=n):
                    for places in itertools.product(("inline", "spawn", "create"), repeat=n - 1):
                        labels = [(kinds[0], "root")] + [(kinds[i], places[i - 1]) for i in range(1, n)]
                        yield {"tree": _label(shape, labels), "cb": "sync", "exit_exc": which}
    # clean-up scopes: the cancelled body of a task-placed scope opens a further scope in its
    # cancellation handler (the task still carries the cancellation request) before it is left
    for place in ("spawn", "create"):
        for ck in ("a", "s"):
            for rk in ("a", "s"):
                yield {
                    "tree": {"kind": rk, "place": "root", "c": [{"kind": "a", "place": place, "c": [], "cleanup": {"kind": ck, "place": "inline", "c": []}}]},
                    "cb": "alt" if ck == "a" else "sync",
                    "cancel_body": 1,
                }
        yield {
            "tree": {"kind": "a", "place": "root", "c": [{"kind": "a", "place": place, "c": [{"kind": "s", "place": "inline", "c": []}], "cleanup": {"kind": "a", "place": "inline", "c": [{"kind": "a", "place": "inline", "c": []}]}}]},
            "cb": "sync",
            "cancel_body": 1,
        }
    for place in ("spawn", "create"):
        yield {"tree": {"kind": "a", "place": "root", "c": [{"kind": "a", "place": place, "c": []}]}, "cb": "alt", "cancel_enter": 1, "fine": True}
        yield {"tree": {"kind": "a", "place": "root", "c": [{"kind": "a", "place": place, "c": []}]}, "cb": "alt", "cancel_body": 1, "fine": True}
    # optional parameters of ctx.scope on nested scopes (own trace id, own logger): the scope still
    # counts for its ancestors' completion
    for opts in ("trace", "trace-all", "logger"):
        for n in (2, 3):
            for shape in tree_shapes(n):
                for places in itertools.product(("inline", "spawn", "create"), repeat=n - 1):
                    labels = [("a", "root")] + [("a" if i % 2 else "s", places[i - 1]) for i in range(1, n)]
                    yield {"tree": _label(shape, labels), "cb": "sync", "opts": opts}
    if tier == "quick":
        # 4-node trees with exactly two task-placed nodes (e.g. two late scopes under one parent)
        for shape in tree_shapes(4):
            for places in itertools.product(("inline", "spawn", "create"), repeat=3):
                if sum(1 for p_ in places if p_ != "inline") != 2:
                    continue
                labels = [("a", "root")] + [("a", places[i - 1]) for i in range(1, 4)]
                yield {"tree": _label(shape, labels), "cb": "sync"}
    # WIDE and DEEP trees (the statement speaks of 5 nodes; bookkeeping that scans / bisects / compacts
    # the list of nested scopes only shows beyond 3 children): stars with 4..9 children and chains of
    # 5..8 scopes, one or two nodes task-placed, the others inline
    for k in (4, 5, 6, 9) if tier == "quick" else (4, 5, 6, 7, 9, 12):
        for pos in sorted({0, 1, k // 2, k - 1}):
            for place in ("create", "spawn"):
                kids = [{"kind": "s" if i % 2 else "a", "place": place if i == pos else "inline", "c": []} for i in range(k)]
                yield {"tree": {"kind": "a", "place": "root", "c": kids}, "cb": "alt" if pos % 2 else "sync"}
        if k <= 6:
            for p1, p2 in ((0, 1), (0, k - 1), (k - 2, k - 1)):
                kids = [{"kind": "a", "place": "create" if i in (p1, p2) else "inline", "c": []} for i in range(k)]
                yield {"tree": {"kind": "a", "place": "root", "c": kids}, "cb": "sync"}
    for d in (5, 6, 8) if tier == "quick" else (5, 6, 8, 10):
        for pos in sorted({1, 2, d // 2, d - 1}):
            for place in ("create", "spawn"):
                node = None
                for lvl in reversed(range(1, d)):
                    node = {"kind": "a" if (lvl % 2 or place == "spawn") else "s", "place": place if lvl == pos else "inline", "c": [node] if node else []}
                yield {"tree": {"kind": "a", "place": "root", "c": [node]}, "cb": "sync"}
    if tier == "thorough":
        from hv.ctxkit import forest_shapes

        for shape in forest_shapes(4):
            for places in itertools.product(("inline", "spawn", "create"), repeat=4):
                if sum(1 for p in places if p != "inline") > 2 or all(p == "inline" for p in places):
                    continue
                for kinds in (("a",) * 5, ("s",) * 5, ("a", "s", "a", "s", "a")):
                    labels = [(kinds[0], "root")] + [(kinds[i], places[i - 1]) for i in range(1, 5)]
                    yield {"tree": _label(shape, labels), "cb": "alt"}
        for places in itertools.product(("inline", "spawn", "create"), repeat=2):
            for fail_at in (1, 2):
                yield {
                    "tree": {"kind": "a", "place": "root", "c": [{"kind": "a", "place": places[0], "c": [{"kind": "a", "place": places[1], "c": []}]}]},
                    "cb": "alt",
                    "fail_enter": fail_at,
                }


def explore_config(tier: str, program) -> dict:
    return {"cap": 300000}


class FailDisp(Disp):
    async def __aenter__(self):
        raise RuntimeError("enter fails")


class SuspDisp(Disp):
    def __init__(self, w, tag) -> None:
        super().__init__(None)
        self.w, self.tag = w, tag

    async def __aenter__(self):
        await self.w.pause(self.tag)
        return None


def execute(program, ch: Chooser) -> Result:  # noqa: C901, PLR0915
    w = World(ch, cancel_budget=1 if (program.get("cancel_enter") is not None or program.get("cancel_body") is not None) else 0, batch=program.get("batch", 1), fine=program.get("fine", False))
    flips: list = []

    def on_quiescent() -> None:
        vtime.advance(0.125)
        # from its completion on a scope reports completed - at every later quiescent point
        if not flips:
            for nid, n in nodes.items():
                m = n.get("metrics")
                if m is not None and n["cbs"] and not m.is_completed:
                    flips.append((nid, [list(e) for e in events]))
                    break

    w.on_quiescent = on_quiescent
    entering: dict = {}
    w.cancel_filter = lambda name, t: entering.get(name, False)
    viols: list[dict] = []
    events: list = []
    nodes: dict[int, dict] = {}
    counter = itertools.count()
    errors: list = []

    def number(t, parent):
        t["id"] = next(counter)
        nodes[t["id"]] = {"parent": parent, "spec": t, "created": None, "entered": None, "exited": None, "cbs": [], "metrics": None}
        for c in t["c"]:
            number(c, t["id"])
        if t.get("cleanup"):
            number(t["cleanup"], t["id"])

    number(program["tree"], None)

    def seq() -> int:
        return len(events)

    def make_cb(nid: int):
        is_async = program["cb"] == "alt" and nid % 2 == 1

        def record(metrics):
            nodes[nid]["metrics"] = metrics
            nodes[nid]["cbs"].append({"seq": seq(), "completed": metrics.is_completed, "time": metrics.time, "segment": len(w.trace)})
            events.append(("completed", nid))

        if program["cb"] == "wrapped":
            # decorated handlers: an async wrapper around a sync function (functools.wraps, like
            # haiway.wrap_async), and the other way round is not a thing; odd nodes get the wrapper
            import functools

            if nid % 2 == 1:

                @functools.wraps(record)
                async def wrapped(metrics):
                    record(metrics)

                return wrapped
            return functools.partial(record)
        if program["cb"] == "callables":
            # other callable forms of an ASYNC handler: a functools.partial of a coroutine function,
            # a bound async method (an object with `async def __call__` is not recognised as
            # asynchronous by the unchanged library - its coroutine is never awaited; "invoked" it
            # is, so this is recorded in DESIGN.md section 5 and not claimed)
            import functools

            async def arecord(tag, metrics):
                record(metrics)

            class Handler:
                async def __call__(self, metrics):
                    record(metrics)

                async def method(self, metrics):
                    record(metrics)

            return (functools.partial(arecord, "tag"), Handler().method)[nid % 2]
        if is_async:

            async def acb(metrics):
                record(metrics)

            return acb
        return record

    async def node(t):
        nid = t["id"]
        await w.pause(f"n{nid}.enter")
        nodes[nid]["created"] = seq()
        nodes[nid]["created_segment"] = len(w.trace)
        events.append(("created", nid))
        disposables = [FailDisp(None)] if program.get("fail_enter") == nid else None
        if program.get("cancel_enter") == nid:
            disposables = [SuspDisp(w, f"n{nid}.denter")]
            me = asyncio.current_task()
            w.add_victim(f"n{nid}", me)
            entering[f"n{nid}"] = True
        try:
            extra_kw: dict = {}
            opts = program.get("opts")
            if opts == "trace" and nid % 2 == 1 or opts == "trace-all":
                extra_kw["trace_id"] = f"own-trace-{nid}"  # an own trace id does not detach the scope
            elif opts == "logger" and nid % 2 == 1:
                import logging as _logging

                extra_kw["logger"] = _logging.getLogger(f"own.logger.{nid}")
            cm = ctx.scope(f"n{nid}", completion=make_cb(nid), disposables=disposables, **extra_kw)
            if t["kind"] == "a":
                await cm.__aenter__()
            else:
                cm.__enter__()
            entering[f"n{nid}"] = False
        except asyncio.CancelledError:
            entering[f"n{nid}"] = False
            events.append(("enter-cancelled", nid))
            nodes[nid]["enter_failed"] = True
            return
        except RuntimeError as exc:
            if program.get("fail_enter") == nid and str(exc) == "enter fails":
                events.append(("enter-failed", nid))
                nodes[nid]["enter_failed"] = True
                return
            errors.append(("enter", nid, repr(exc)))
            return
        except BaseException as exc:  # noqa: BLE001
            errors.append(("enter", nid, repr(exc)))
            return
        nodes[nid]["entered"] = seq()
        events.append(("entered", nid))
        exc_info = (None, None, None)
        if program.get("cancel_body") == nid:
            w.add_victim(f"n{nid}", asyncio.current_task())
            entering[f"n{nid}"] = True  # cancellable while in the body
        try:
            for c in t["c"]:
                if c["place"] == "inline":
                    await node(c)
                elif c["place"] == "spawn":
                    try:
                        ctx.spawn(node, c)
                    except RuntimeError:
                        # this task inherited the context of a scope that has been left: its
                        # task group is finished (outside the statement) - start it plainly
                        events.append(("spawn-refused", c["id"]))
                        w.loop.create_task(node(c))
                else:
                    w.loop.create_task(node(c))
            await w.pause(f"n{nid}.exit")
        except asyncio.CancelledError as exc:
            exc_info = (type(exc), exc, exc.__traceback__)
            events.append(("body-cancelled", nid))
            if t.get("cleanup"):
                entering[f"n{nid}"] = False
                await node(t["cleanup"])
        entering[f"n{nid}"] = False
        if program.get("exit_exc") and exc_info[0] is None and (nid != 0 or program["exit_exc"] == "all"):
            # the scope is left the way a failing body leaves it (the error is handled right
            # outside the block by the code that opened it)
            body_error = ValueError(f"body of n{nid} failed")
            exc_info = (ValueError, body_error, None)
        events.append(("exit-start", nid))
        try:
            if t["kind"] == "a":
                await cm.__aexit__(*exc_info)
            else:
                cm.__exit__(*exc_info)
        except asyncio.CancelledError:
            events.append(("exit-cancelled", nid))
        except BaseException as exc:  # noqa: BLE001
            errors.append(("exit", nid, f"{type(exc).__name__}: {exc}"))
        nodes[nid]["exited"] = seq()
        events.append(("exited", nid))

    try:
        root = w.task(node(program["tree"]), name="root")
        hang = False
        try:
            w.run()
        except Livelock:
            hang = True
        w.settle()
        vtime.advance(5.0)
        if hang or not root.done():
            viols.append(viol("termination", "hang", "root finishes", [list(e) for e in events[-6:]]))

        def ancestors(nid):
            p = nodes[nid]["parent"]
            while p is not None:
                yield p
                p = nodes[p]["parent"]

        for nid, n in nodes.items():
            place = n["spec"]["place"]
            if n["created"] is None:
                continue
            if n["entered"] is None and not n.get("enter_failed"):
                continue
            if errors and any(e[1] == nid for e in errors):
                continue
            k = len(n["cbs"])
            if n.get("enter_failed"):
                if k > 1:
                    viols.append(viol("exactly-once", f"failed-enter-fired-{k}", "<= 1", k))
                continue
            if k != 1:
                viols.append(
                    viol(
                        "exactly-once",
                        ("never" if k == 0 else f"{k}-times") + f"/{place}",
                        "callback invoked exactly once by final quiescence",
                        k,
                        node=nid,
                        events=[list(e) for e in events],
                    )
                )
                continue
            cb = n["cbs"][0]
            if n["exited"] is None or cb["seq"] < n["exited"]:
                viols.append(viol("after-exit", f"before-own-exit/{place}", "after the scope was left", cb["seq"], node=nid, events=[list(e) for e in events]))
            if not cb["completed"]:
                viols.append(viol("completed-flag", f"false-in-callback/{place}", True, False, node=nid))
            m = n["metrics"]
            if m is not None:
                if not m.is_completed:
                    viols.append(viol("completed-flag", f"flips-back/{place}", True, False, node=nid, events=[list(e) for e in events]))
                if m.time != cb["time"]:
                    viols.append(viol("time-frozen", f"time-changes/{place}", cb["time"], m.time, node=nid))
        # callbacks wait for every nested scope that existed when they fired
        for nid, n in nodes.items():
            for a in ancestors(nid):
                an = nodes[a]
                if len(an["cbs"]) != 1 or n["created"] is None:
                    continue
                cbseq = an["cbs"][0]["seq"]
                # a callback is *invoked* through the loop (done-callback of the completion future):
                # a scope created after the ancestor was left, in the very run of the loop in which
                # the ancestor completed, did not exist when the completion was decided
                if (
                    an["exited"] is not None
                    and n["created"] > an["exited"]
                    and n.get("created_segment") == an["cbs"][0].get("segment")
                ):
                    continue
                if n["created"] < cbseq and (n["exited"] is None or n["exited"] > cbseq) and not n.get("enter_failed"):
                    viols.append(
                        viol(
                            "after-subtree",
                            f"fires-before-nested-left/{n['spec']['place']}",
                            f"completion of n{a} after n{nid} was left",
                            [list(e) for e in events],
                        )
                    )
        if flips:
            viols.append(viol("completed-flag", f"flips-back-transiently/{nodes[flips[0][0]]['spec']['place']}", True, False, node=flips[0][0], events=flips[0][1]))
        if errors:
            viols.append(
                viol(
                    "leaving-never-fails",
                    f"{errors[0][0]}-raises/{nodes[errors[0][1]]['spec']['place']}",
                    "no exception from enter/exit bookkeeping",
                    errors[:3],
                    events=[list(e) for e in events],
                )
            )
        bad = [e for e in w.loop.exc_log if e.get("exception")]
        if bad:
            viols.append(viol("leaving-never-fails", "loop-exception", "none", bad[:2]))
        other_task = any(n["spec"]["place"] in ("spawn", "create") for n in nodes.values())
        late = any(
            n["created"] is not None and nodes[n["parent"]]["exited"] is not None and n["created"] > nodes[n["parent"]]["exited"]
            for n in nodes.values()
            if n["parent"] is not None
        )
        outcome = f"n={len(nodes)}/othertask={other_task}/late-child={late}/errors={len(errors)}"
        return Result(outcome, other_task, viols[:5], {"events": [list(e) for e in events], "trace": w.trace})
    finally:
        w.close()
