"""C18  asynchronous, wrap_async, traced are transparent and carry the caller context.

Grid enumeration: signature x call form x function/method x outcome x executor x caller context;
for `asynchronous` the wrapped body runs on a real, gated worker thread whose release is an
environment action, explored in every order against a heartbeat task on the loop.
"""

import asyncio
import inspect
import logging
import re
import threading
from concurrent.futures import Future as CFuture
from concurrent.futures import ThreadPoolExecutor

from hv import boot  # noqa: F401
from hv.core import Result, task_failure, viol
from hv.exckit import OWN_CLASSES, make_own
from hv.ctxkit import A, Capture, MissingContext, MissingState
from hv.vloop import Livelock
from hv.world import Action, Chooser, World

from haiway import (  # noqa: E402
    ArgumentsTrace,
    ResultTrace,
    asynchronous,
    cache,
    ctx,
    retry,
    throttle,
    timeout,
    traced,
    wrap_async,
)

ID = "C18"
TECHNIQUE = "exhaustive grid enumeration (signature x call form x receiver x outcome x executor x caller context) with gated real worker threads; every order of worker release vs loop heartbeat (DFS, prefix replay)"
RULE = (
    "6 signatures x every admissible call form x {function, bound method, bound method of a falsy receiver} x {value, Exception, "
    "BaseException} x "
    "{default, explicit executor} x caller context {none, scope A#1, scope + updated A#2} for "
    "asynchronous (all orders of 'release worker' vs two heartbeat steps); wrap_async (sync / "
    "async input) and traced (sync / async, inside / outside a scope) over the same call forms; "
    "metadata (__name__, __doc__, __wrapped__) for every helper decorator under every combination of its options (138 configurations) and every stacked pair, also after the outer decorator had been applied to the plain function before; consecutive calls served by one pooled worker thread from callers with an empty / own context; non-trivial = the call "
    "passes keyword / variadic arguments, raises, or is made inside a scope"
)
RULE += ' Rounds 10-13: a long-lived wrapper (10-40 (100) consecutive calls, never on the loop thread); results with many digits / large size; the loop= parameter; methods looked up on several / equal instances within one step.'
ASSUMPTIONS = [
    "worker threads are gated: a submitted call runs on a real separate thread only when the "
    "controller releases it and is joined before the loop continues (no unowned races)",
    "debug mode (asserts on), as the test-suite runs",
]
BOUNDS = {"quick": {"signatures": 6}, "thorough": {"signatures": 6, "plus": "nested scope + update caller contexts for traced"}}
EXHAUSTIVE = {"quick": True, "thorough": True}
SAMPLE_EVERY = {"quick": 200, "thorough": 400}

_FP = re.compile(r"^\[(?P<trace>[^\]]*)\] (\[(?P<label>[^\]]*)\] )?\[(?P<ident>[^\]]*)\] fp$")
_root = logging.getLogger()
_cap = Capture()
_root.addHandler(_cap)
_root.setLevel(logging.DEBUG)


class GatedExecutor(ThreadPoolExecutor):
    """every submitted call gets its own real thread, blocked on a gate until released"""

    def __init__(self) -> None:
        super().__init__(max_workers=1)
        self.pending: list[dict] = []
        self.count = 0

    def submit(self, fn, /, *args, **kwargs):  # type: ignore[override]
        fut: CFuture = CFuture()
        gate = threading.Event()
        rec = {"gate": gate, "future": fut, "thread": None, "released": False, "n": self.count}
        self.count += 1

        def run() -> None:
            gate.wait()
            if not fut.set_running_or_notify_cancel():
                return
            try:
                result = fn(*args, **kwargs)
            except BaseException as exc:  # noqa: BLE001
                fut.set_exception(exc)
            else:
                fut.set_result(result)

        t = threading.Thread(target=run, daemon=True)
        rec["thread"] = t
        t.start()
        self.pending.append(rec)
        return fut

    def release(self, rec: dict) -> None:
        rec["released"] = True
        rec["gate"].set()
        rec["thread"].join()

    def drain(self) -> None:
        for rec in self.pending:
            if not rec["released"]:
                rec["future"].cancel()
                self.release(rec)


class Boom(Exception):
    pass


class BoomBase(BaseException):
    pass


RESULT = object()

SIGS: dict[str, tuple[str, list]] = {
    "a": ("def f({s}a):", [((1,), {}), ((), {"a": 1})]),
    "a_b2": ("def f({s}a, b=2):", [((1,), {}), ((1, 3), {}), ((1,), {"b": 3}), ((), {"a": 1, "b": 3})]),
    "args": ("def f({s}*args):", [((), {}), ((1, 2, 3), {})]),
    "kw": ("def f({s}**kw):", [((), {}), ((), {"x": 1, "y": 2})]),
    "a_k1": ("def f({s}a, *, k=1):", [((1,), {}), ((1,), {"k": 5})]),
    "full": ("def f({s}a, /, b, *args, k=1, **kw):", [((1, 2), {}), ((1, 2, 3, 4), {"k": 5, "z": 6}), ((1,), {"b": 2})]),
    # keyword names that a wrapper is likely to use for its own parameters
    "names": ("def f({s}a, *, instance=0, function=1, loop=2, executor=3, args=4, kwargs=5):", [((1,), {"instance": 7, "function": 8, "loop": 9, "executor": 10, "args": 11, "kwargs": 12})]),
    "kwnames": ("def f({s}**kw):", [((), {"instance": 1, "function": 2, "owner": 3, "context": 4, "call": 5})]),
}

# own exception classes for the "raise_own" outcome: exckit + the RuntimeError family
# (the concurrent.futures exception classes are excluded: run_in_executor translates them into
#  their asyncio counterparts by design - a thread raising them is indistinguishable from the
#  executor future being cancelled / misused)
OWN18 = [*(c for c in OWN_CLASSES if not c.__module__.startswith("concurrent.futures")), NotImplementedError, RecursionError]


def programs(tier: str):
    for sig, (_, forms) in SIGS.items():
        for fi in range(len(forms)):
            for kind in ("function", "method", "method-falsy"):
                for outcome in ("value", "raise", "raise_base", "awaitable"):
                    for executor in ("default", "explicit"):
                        if outcome == "awaitable" and (executor == "explicit" or kind != "function"):
                            continue
                        if kind == "method-falsy" and outcome not in ("value", "raise"):
                            continue  # a receiver whose instances are falsy (empty container)
                        if outcome == "raise_base" and executor == "explicit":
                            continue
                        for cctx in ("none", "scope", "scope+updated"):
                            yield {"family": "asynchronous", "sig": sig, "form": fi, "kind": kind, "outcome": outcome, "executor": executor, "ctx": cctx}
            for inp in ("sync", "async"):
                for outcome in ("value", "raise", "raise_base", "awaitable", "eq-all", "eq-nobool"):
                    if outcome == "awaitable" and inp == "async":
                        continue
                    if outcome.startswith("eq-") and fi != 0:
                        continue
                    yield {"family": "wrap_async", "sig": sig, "form": fi, "input": inp, "outcome": outcome}
                    ctxs = ("none", "scope") if tier == "quick" else ("none", "scope", "scope+updated", "nested")
                    for cctx in ctxs:
                        yield {"family": "traced", "sig": sig, "form": fi, "input": inp, "outcome": outcome, "ctx": cctx}
    # results with many digits / large size (identity preserved, recorded as they are), and the
    # optional `loop=` parameter of asynchronous (alone, with an explicit executor)
    for outcome in ("float-third", "float-tiny", "float-sum", "int-big", "str-long"):
        for inp in ("sync", "async"):
            yield {"family": "wrap_async", "sig": "a", "form": 0, "input": inp, "outcome": outcome}
            for cctx in ("none", "scope"):
                yield {"family": "traced", "sig": "a", "form": 0, "input": inp, "outcome": outcome, "ctx": cctx}
        yield {"family": "asynchronous", "sig": "a", "form": 0, "kind": "function", "outcome": outcome, "executor": "default", "ctx": "scope"}
    # the wrapped function is called while the caller is handling an unrelated exception
    for outcome in ("value", "raise", "float-third"):
        for inp in ("sync", "async"):
            yield {"family": "traced", "sig": "a", "form": 0, "input": inp, "outcome": outcome, "ctx": "scope", "in_except": True}
            yield {"family": "wrap_async", "sig": "a", "form": 0, "input": inp, "outcome": outcome, "ctx": "scope", "in_except": True}
        yield {"family": "asynchronous", "sig": "a", "form": 0, "kind": "function", "outcome": outcome, "executor": "default", "ctx": "scope", "in_except": True}
    for kind in ("function", "method"):
        for executor in ("explicit+loop", "loop"):
            for outcome in ("value", "raise"):
                for cctx in ("none", "scope", "scope+updated"):
                    yield {"family": "asynchronous", "sig": "a", "form": 0, "kind": kind, "outcome": outcome, "executor": executor, "ctx": cctx}
    # the function's own exception is of a class a wrapper might handle itself (RuntimeError
    # family, LookupError family ...): handed back unchanged, the function ran exactly once
    for c in range(len(OWN18)):
        for kind in ("function", "method"):
            for executor in ("default", "explicit"):
                yield {"family": "asynchronous", "sig": "a", "form": 0, "kind": kind, "outcome": "raise_own", "errclass": c, "executor": executor, "ctx": "none"}
        for inp in ("sync", "async"):
            yield {"family": "wrap_async", "sig": "a", "form": 0, "input": inp, "outcome": "raise_own", "errclass": c}
            yield {"family": "traced", "sig": "a", "form": 0, "input": inp, "outcome": "raise_own", "errclass": c, "ctx": "scope"}
    # the wrapped function starts a background task with ctx.spawn and returns
    for inp in ("sync", "async"):
        for cctx in ("none", "scope"):
            yield {"family": "traced", "sig": "a", "form": 0, "input": inp, "outcome": "value", "ctx": cctx, "spawn_inside": True}
        yield {"family": "wrap_async", "sig": "a", "form": 0, "input": inp, "outcome": "value", "spawn_inside": True}
    for kind in ("function", "method"):
        for executor in ("default", "explicit"):
            yield {"family": "reuse", "kind": kind, "executor": executor}
    for how in ("copy", "second-instance", "equal"):
        yield {"family": "method-copy", "how": how}
    for how in ("gather", "tasks", "bound-first"):
        for n in (2, 3):
            yield {"family": "method-together", "how": how, "n": n}
    import itertools as _it2

    for kind in ("function", "method"):
        for L in (2, 3):
            for callers in _it2.product(POOLED_CALLERS, repeat=L):
                yield {"family": "pooled", "kind": kind, "callers": list(callers)}
        # a LONG-LIVED wrapper: 10 .. 40 (100) consecutive calls through one wrapper object
        for L in (10, 17, 40) if tier == "quick" else (10, 17, 40, 100):
            for first in range(3):
                yield {"family": "pooled", "kind": kind, "callers": [POOLED_CALLERS[(first + i) % 3] for i in range(L)]}
            yield {"family": "pooled", "kind": kind, "callers": ["empty"] * L}
    for pair in (
        "traced-over-retry",
        "cache-over-retry",
        "retry-over-cache",
        "retry-over-traced",
        "timeout-over-throttle",
        "cache-over-functools-wraps",
        "asynchronous-over-retry",
    ):
        yield {"family": "meta", "decorator": "stack:" + pair}
    # every ordered pair of helper decorators, optionally after the outer decorator had already
    # been applied to the plain function before (its result kept alive): the stacked wrapper
    # references the inner wrapper, not something remembered from the earlier use
    for outer in ("retry", "cache", "traced", "throttle", "timeout", "asynchronous", "wrap_async"):
        for inner in ("retry", "cache", "traced", "throttle", "timeout"):
            if outer in ("asynchronous", "wrap_async") and inner in ("throttle", "timeout"):
                continue
            if outer == "throttle" and inner in ("cache", "throttle", "timeout"):
                continue  # throttle accepts plain coroutine functions only (asserts): not a metadata matter
            for pre in (False, True):
                yield {"family": "meta", "decorator": f"stack:{outer}-over-{inner}", "pre": pre}
    for deco in ("asynchronous", "asynchronous()", "wrap_async", "traced", "traced-async", "cache", "cache()", "cache-async", "retry", "retry()", "retry-async", "throttle", "throttle()", "timeout", "asynchronous-method", "cache-method", "asynchronous-method-nodoc", "cache-method-nodoc"):
        yield {"family": "meta", "decorator": deco}
    # every combination of every decorator's options ("-" = argument left out)
    import itertools as _it

    for which, space in META_GRID.items():
        names = list(space)
        for combo in _it.product(*(space[nm] for nm in names)):
            yield {"family": "meta", "decorator": "grid:" + which, "opts": dict(zip(names, combo))}


META_GRID = {
    "cache": {"fn": ["sync", "async"], "limit": ["-", 2], "expiration": ["-", "none", 1.5]},
    "retry": {"fn": ["sync", "async"], "limit": ["-", 2], "delay": ["-", "none", 1, 0.5, "fn"], "catching": ["-", "cls", "tuple", "set"]},
    "throttle": {"fn": ["async"], "limit": ["-", 2], "period": ["-", 1, 0.5, "timedelta"]},
    "timeout": {"fn": ["async"], "timeout": [1, 0.5]},
    "asynchronous": {"fn": ["sync"], "executor": ["-", "pool"], "loop": ["-", "none"]},
    "traced": {"fn": ["sync", "async"]},
    "wrap_async": {"fn": ["sync", "async"]},
}


def _grid_decorate(which: str, opts: dict, fn):
    """Apply decorator `which` with exactly the given options to fn."""
    from datetime import timedelta as _td

    kw: dict = {}
    for k, v in opts.items():
        if k == "fn" or v == "-":
            continue
        if v == "none":
            kw[k] = None
        elif v == "timedelta":
            kw[k] = _td(seconds=1)
        elif v == "fn":
            kw[k] = lambda attempt, exc: 0.5
        elif v == "cls":
            kw[k] = ValueError
        elif v == "tuple":
            kw[k] = (ValueError, KeyError)
        elif v == "set":
            kw[k] = {ValueError, KeyError}
        elif v == "pool":
            from concurrent.futures import ThreadPoolExecutor

            kw[k] = ThreadPoolExecutor(max_workers=1)
        else:
            kw[k] = v
    if which == "timeout":
        return timeout(kw["timeout"])(fn)
    deco = {"cache": cache, "retry": retry, "throttle": throttle, "asynchronous": asynchronous, "traced": traced, "wrap_async": wrap_async}[which]
    if which == "wrap_async":
        return deco(fn)
    if not kw:
        return deco(fn)  # bare form; the called form with no arguments is covered above
    try:
        return deco(**kw)(fn)
    finally:
        ex = kw.get("executor")
        if ex is not None:
            ex.shutdown(wait=False)


def explore_config(tier: str, program) -> dict:
    return {}


def _make(sig: str, is_method: bool, is_async: bool, body):
    """build the function from its signature text; `body(locals_dict)` decides the outcome"""
    header = SIGS[sig][0].format(s="self, " if is_method else "")
    if is_async:
        header = "async " + header
    src = header + "\n    'Doc of f.'\n    return __body__(dict(locals()))\n"
    ns: dict = {"__body__": body}
    exec(src, ns)  # noqa: S102  (fixed text from the table above)
    return ns["f"]


def _state_token(tags: dict) -> list:
    try:
        s = ctx.state(A)
        return ["inst", tags[id(s)]] if id(s) in tags else ["constructed" if s == A() else "unknown"]
    except MissingContext:
        return ["MissingContext"]
    except MissingState:
        return ["MissingState"]


def _label() -> list:
    n0 = len(_cap.records)
    ctx.log_info("fp")
    recs = [r for r in _cap.records[n0:] if isinstance(r.msg, str) and r.msg.endswith("fp")]
    if len(recs) != 1:
        return ["records", len(recs)]
    m = _FP.match(recs[0].msg)
    return ["scope", m.group("label")] if m else ["root"]


def _expected_bound(fn, args, kwargs, receiver=None) -> dict:
    sig = inspect.signature(fn)
    ba = sig.bind(*((receiver, *args) if receiver is not None else args), **kwargs)
    ba.apply_defaults()
    d = dict(ba.arguments)
    d.pop("self", None)
    return d


def _reuse(program, ch: Chooser) -> Result:
    """one wrapper object called in three consecutive event loops"""
    viols: list[dict] = []
    results: list = []
    holder: dict = {}
    trace: list = []
    for round_no in range(3):
        w = World(ch)
        executor = GatedExecutor()
        w.loop.set_default_executor(executor)
        try:
            if round_no == 0:

                def plain(a):
                    return ("r", a)

                class Owner:
                    @asynchronous
                    def m(self, a):
                        return ("r", a)

                # an explicit executor belongs to the first world: use the default path for methods
                holder["fn"] = asynchronous(plain) if program["kind"] == "function" else Owner().m
            got: dict = {}

            async def call():
                try:
                    got["out"] = await holder["fn"](round_no)
                except BaseException as exc:  # noqa: BLE001
                    got["out"] = f"{type(exc).__name__}: {exc}"[:80]

            w.extra_actions = lambda: [
                Action("release", f"w{rec['n']}", lambda rec=rec: executor.release(rec)) for rec in executor.pending if not rec["released"]
            ]
            t = w.task(call(), name="driver")
            try:
                w.run()
            except Livelock:
                pass
            trace.extend(w.trace)
            results.append(got.get("out", "pending" if not t.done() else None))
        finally:
            executor.drain()
            w.close()
    want = [("r", 0), ("r", 1), ("r", 2)]
    if [tuple(r) if isinstance(r, (tuple, list)) else r for r in results] != want:
        viols.append(viol("transparent", f"reused-in-another-loop/{program['kind']}", want, results))
    return Result(f"reuse/{program['kind']}", True, viols, {"results": [list(r) if isinstance(r, tuple) else r for r in results], "trace": trace}, steps=3)


class PooledGatedExecutor(ThreadPoolExecutor):
    """ONE long-lived worker thread (like a pool of size one): jobs run in submission order, each
    only after it was released"""

    def __init__(self) -> None:
        super().__init__(max_workers=1)
        import queue as _q

        self.jobs: "_q.Queue" = _q.Queue()
        self.pending: list[dict] = []
        self.count = 0
        self.worker = threading.Thread(target=self._work, daemon=True)
        self.worker.start()

    def _work(self) -> None:
        while True:
            rec = self.jobs.get()
            if rec is None:
                return
            rec["gate"].wait()
            fut = rec["future"]
            if fut.set_running_or_notify_cancel():
                try:
                    fut.set_result(rec["fn"]())
                except BaseException as exc:  # noqa: BLE001
                    fut.set_exception(exc)
            rec["done"].set()

    def submit(self, fn, /, *args, **kwargs):  # type: ignore[override]
        import functools as _ft

        rec = {"gate": threading.Event(), "done": threading.Event(), "future": CFuture(), "fn": _ft.partial(fn, *args, **kwargs), "released": False, "n": self.count}
        self.count += 1
        self.pending.append(rec)
        self.jobs.put(rec)
        return rec["future"]

    def head(self):
        for rec in self.pending:
            if not rec["released"]:
                return rec
        return None

    def release(self, rec: dict) -> None:
        rec["released"] = True
        rec["gate"].set()
        rec["done"].wait(10)

    def drain(self) -> None:
        for rec in self.pending:
            if not rec["released"]:
                rec["future"].cancel()
                self.release(rec)
        self.jobs.put(None)
        self.worker.join(10)


_THREAD_VAR: "contextvars.ContextVar[str]" = __import__("contextvars").ContextVar("hv_c18_thread_var")

POOLED_CALLERS = ["empty", "set", "scope"]


def _pooled(program, ch: Chooser) -> Result:
    """consecutive calls served by the SAME worker thread: each sees its own caller's context,
    never what an earlier call left behind in the thread"""
    import contextvars

    viols: list[dict] = []
    w = World(ch)
    executor = PooledGatedExecutor()
    w.loop.set_default_executor(executor)
    seen: list = []
    try:

        loop_thread = threading.get_ident()
        on_loop_thread: list = []

        def plain(n):
            if threading.get_ident() == loop_thread:
                on_loop_thread.append(n)
            v = _THREAD_VAR.get("unset")
            _THREAD_VAR.set(f"left-by-call-{n}")
            return v

        class Owner:
            @asynchronous
            def m(self, n):
                if threading.get_ident() == loop_thread:
                    on_loop_thread.append(n)
                v = _THREAD_VAR.get("unset")
                _THREAD_VAR.set(f"left-by-call-{n}")
                return v

        fn = asynchronous(plain) if program["kind"] == "function" else Owner().m
        w.extra_actions = lambda: ([Action("release", f"w{executor.head()['n']}", lambda rec=executor.head(): executor.release(rec))] if executor.head() is not None else [])
        want: list = []
        for n, caller in enumerate(program["callers"]):

            async def call(n=n, caller=caller):
                try:
                    if caller == "set":
                        _THREAD_VAR.set(f"caller-{n}")
                        seen.append(await fn(n))
                    elif caller == "scope":
                        async with ctx.scope("caller"):
                            seen.append(await fn(n))
                    else:
                        seen.append(await fn(n))
                except BaseException as exc:  # noqa: BLE001
                    seen.append(f"{type(exc).__name__}: {exc}"[:80])

            want.append(f"caller-{n}" if caller == "set" else "unset")
            t = w.loop.create_task(call(), name=f"caller{n}", context=contextvars.Context())
            try:
                w.run()
            except Livelock:
                pass
            if not t.done():
                viols.append(viol("termination", f"pooled/{program['kind']}", "call returns", "pending"))
                break
        if seen != want[: len(seen)] or len(seen) != len(want):
            first_bad = next((i for i, (a, b) in enumerate(zip(seen, want)) if a != b), len(seen))
            viols.append(
                viol(
                    "context",
                    f"stale-thread-context/{program['kind']}/call{first_bad + 1}-from-{program['callers'][first_bad] if first_bad < len(want) else '?'}-caller",
                    want,
                    seen,
                )
            )
        if on_loop_thread:
            viols.append(viol("off-loop-thread", f"pooled/{program['kind']}/ran-on-the-loop-thread", "every call runs off the event-loop thread", {"calls (0-based)": on_loop_thread[:5], "of": len(program["callers"])}))
        return Result(f"pooled/{program['kind']}/{len(seen)}", True, viols, {"seen": seen, "trace": w.trace[-40:]}, steps=len(seen))
    finally:
        executor.drain()
        w.close()


def _method_copy(program, ch: Chooser) -> Result:
    """an asynchronous method is bound to the instance it is called on - also for a copy of an
    instance on which it had been called before"""
    import copy

    viols: list[dict] = []
    w = World(ch)
    executor = GatedExecutor()
    w.loop.set_default_executor(executor)
    try:

        class Account:
            def __init__(self, name):
                self.name = name

            @asynchronous
            def who(self):
                return self

        if program["how"] == "equal":
            # value semantics: distinct instances that compare (and hash) equal
            Account.__eq__ = lambda self, other: isinstance(other, Account)  # type: ignore[method-assign]
            Account.__hash__ = lambda self: 11  # type: ignore[method-assign]
        a = Account("a")
        got: list = []

        async def main():
            got.append(await a.who())
            b = copy.copy(a) if program["how"] == "copy" else Account("b")
            b.name = "b"
            got.append((await b.who(), b))
            got.append(await a.who())

        w.extra_actions = lambda: [
            Action("release", f"w{rec['n']}", lambda rec=rec: executor.release(rec)) for rec in executor.pending if not rec["released"]
        ]
        t = w.task(main(), name="driver")
        try:
            w.run()
        except Livelock:
            pass
        if task_failure(t) is not None or len(got) != 3:
            viols.append(viol("transparent", f"method-copy/{program['how']}/fails", "three calls return", str(task_failure(t))[:120]))
        else:
            if got[0] is not a or got[2] is not a:
                viols.append(viol("arguments", f"method-copy/{program['how']}/original", "self is the original", "other"))
            if got[1][0] is not got[1][1]:
                viols.append(viol("arguments", f"method-copy/{program['how']}", "self is the instance the method was called on", f"self.name={getattr(got[1][0], 'name', None)!r}"))
        return Result(f"method-copy/{program['how']}", True, viols, {"n": len(got), "trace": w.trace}, steps=3)
    finally:
        executor.drain()
        w.close()


class CallerBusyErr(Exception):
    pass


def _method_together(program, ch: Chooser) -> Result:
    """the method is looked up on SEVERAL instances within one step (gather / create_task over
    objects), the calls run afterwards: each call belongs to the instance it was looked up on"""
    viols: list[dict] = []
    w = World(ch)
    executor = GatedExecutor()
    w.loop.set_default_executor(executor)
    n, how = program["n"], program["how"]
    try:

        class Basket:
            def __init__(self, name):
                self.name = name

            @asynchronous
            def owner(self, tag):
                return (self, tag)

        baskets = [Basket(f"b{i}") for i in range(n)]
        got: list = []

        async def main():
            if how == "gather":
                got.extend(await asyncio.gather(*[b.owner(i) for i, b in enumerate(baskets)]))
            elif how == "tasks":
                ts = [asyncio.ensure_future(b.owner(i)) for i, b in enumerate(baskets)]
                for t_ in ts:
                    got.append(await t_)
            else:  # bound methods taken first, called later in reverse order
                ms = [b.owner for b in baskets]
                for i in reversed(range(n)):
                    got.append(await ms[i](i))
                got.reverse()

        w.extra_actions = lambda: [
            Action("release", f"w{rec['n']}", lambda rec=rec: executor.release(rec)) for rec in executor.pending if not rec["released"]
        ]
        t = w.task(main(), name="driver")
        try:
            w.run()
        except Livelock:
            pass
        if task_failure(t) is not None or len(got) != n:
            viols.append(viol("transparent", f"method-together/{how}/fails", f"{n} calls return", str(task_failure(t))[:120]))
        else:
            wrong = [(i, getattr(r[0], "name", None), r[1]) for i, r in enumerate(got) if r[0] is not baskets[i] or r[1] != i]
            if wrong:
                viols.append(viol("arguments", f"method-together/{how}", "self is the instance the method was looked up on, the argument its own", wrong[:3]))
        return Result(f"method-together/{how}/{n}", True, viols, {"n": len(got), "trace": w.trace[-20:]}, steps=n)
    finally:
        executor.drain()
        w.close()


def execute(program, ch: Chooser) -> Result:  # noqa: C901, PLR0912, PLR0915
    fam = program["family"]
    if fam == "meta":
        return _meta(program)
    if fam == "method-together":
        return _method_together(program, ch)
    if fam == "method-copy":
        return _method_copy(program, ch)
    if fam == "pooled":
        return _pooled(program, ch)
    if fam == "reuse":
        return _reuse(program, ch)
    _cap.records.clear()
    sig, fi = program["sig"], program["form"]
    args, kwargs = SIGS[sig][1][fi]
    outcome = program["outcome"]
    viols: list[dict] = []
    w = World(ch)
    loop_thread = threading.get_ident()
    executor = GatedExecutor()
    w.loop.set_default_executor(executor)
    tags: dict[int, str] = {}
    a1, a2, a9 = A(tag="A#1"), A(tag="A#2"), A(tag="A#9")
    for s in (a1, a2, a9):
        tags[id(s)] = s.tag
    seen: dict = {"calls": 0}
    boom = Boom("own") if outcome != "raise_base" else BoomBase("own-base")
    if outcome == "raise_own":
        boom = make_own(OWN18[program["errclass"]], "own")
    leak_cms: list = []

    def body(received: dict):
        received.pop("self", None)
        received.pop("__body__", None)
        seen["calls"] += 1
        seen["locals"] = received
        seen["thread"] = threading.get_ident()
        seen["state"] = _state_token(tags)
        if fam == "traced":
            seen["label"] = _label()
        if program.get("spawn_inside"):
            # the function starts a background task through the context: it belongs to the
            # caller's scope (or is detached) - the call itself returns without waiting for it
            async def background():
                await w.pause("background", low=True)

            seen["bg"] = ctx.spawn(background)
        # leave a context change open on purpose: it must not leak back to the caller
        cm = ctx.updated(a9)
        cm.__enter__()
        leak_cms.append(cm)
        if outcome in special:
            return special[outcome]  # a result object of an unusual type, returned as a value
        if outcome not in ("value", "awaitable", "eq-all", "eq-nobool", "float-third", "float-tiny", "int-big", "str-long", "float-sum"):
            raise boom
        return RESULT

    class AwaitableValue:
        """a result object that happens to be awaitable; awaiting it yields something else"""

        def __await__(self):
            return iter(())

    class EqAll:
        """a result that claims to be equal to everything"""

        def __eq__(self, other):
            return True

        def __hash__(self):
            return 3

    class EqNoBool:
        """a result whose == returns an object that refuses truth testing (array style)"""

        class _Mask:
            def __bool__(self):
                raise ValueError("truth value of a mask is ambiguous")

        def __eq__(self, other):
            return EqNoBool._Mask()

        def __hash__(self):
            return 4

    awaitable_result = AwaitableValue()
    special = {"eq-all": EqAll(), "eq-nobool": EqNoBool(), "awaitable": awaitable_result, "float-third": 1.0 / 3.0, "float-tiny": 2.5e-9, "int-big": 2**70 + 1, "str-long": "s" * 5000, "float-sum": 0.1 + 0.2}
    hb: dict = {"steps": 0}
    got: dict = {}
    completions: dict = {}

    async def heartbeat():
        await w.pause("hb.0")
        hb["steps"] += 1
        await w.pause("hb.1")
        hb["steps"] += 1
        hb["worker_released_when_done"] = any(r["released"] for r in executor.pending)

    try:
        is_method = program.get("kind") in ("method", "method-falsy")
        receiver = None
        if fam == "asynchronous":
            raw = _make(sig, is_method, False, body)
            exe = program["executor"]
            deco = (
                asynchronous
                if exe == "default"
                else asynchronous(executor=executor)
                if exe == "explicit"
                else asynchronous(loop=w.loop, executor=executor)
                if exe == "explicit+loop"
                else asynchronous(loop=w.loop)
            )
            if is_method:
                members: dict = {"f": deco(raw)}
                if program.get("kind") == "method-falsy":
                    members["__len__"] = lambda self: 0
                owner = type("Owner", (), members)
                receiver = owner()
                target = receiver.f
            else:
                target = deco(raw)
        elif fam == "wrap_async":
            raw = _make(sig, False, program["input"] == "async", body)
            target = wrap_async(raw)
            if program["input"] == "async" and target is not raw:
                viols.append(viol("wrap_async", "async-input-not-returned-as-is", "same function", "wrapped"))
        else:
            raw = _make(sig, False, program["input"] == "async", body)
            target = traced(raw)

        def cb(name):
            def record(m):
                completions[name] = m.metrics(merge=lambda cur, got_: got_)

            return record

        async def call():
            before = [_state_token(tags), None]
            try:
                r = target(*args, **kwargs)
                if inspect.isawaitable(r) and not (fam == "traced" and program.get("input") == "sync"):
                    r = await r  # the wrapper's coroutine (a sync traced function returns directly)
                got["out"] = ("value", r)
                if "bg" in seen:
                    got["bg_done_at_return"] = seen["bg"].done()
            except BaseException as exc:  # noqa: BLE001
                # (run_in_executor re-creates TimeoutError / InvalidStateError objects when it copies
                #  the outcome from the thread's future: same class, same args - still the function's own)
                recreated = fam == "asynchronous" and type(boom) in (TimeoutError, asyncio.InvalidStateError) and type(exc) is type(boom) and exc.args == boom.args
                if exc is boom or isinstance(exc, (Boom, BoomBase)) or recreated:
                    got["out"] = ("raised", boom if recreated else exc)
                else:
                    got["out"] = ("other", f"{type(exc).__name__}: {exc}"[:200])
            got["before"] = before[0]
            got["after"] = _state_token(tags)

        async def main():
            cctx = program.get("ctx", "none")
            if program.get("in_except"):
                # the call is made while the caller is handling another error of its own
                try:
                    raise CallerBusyErr("the caller's own error, being handled")
                except CallerBusyErr:
                    async with ctx.scope("caller", a1, completion=cb("caller")):
                        await call()
            elif cctx == "none":
                await call()
            elif cctx == "scope":
                async with ctx.scope("caller", a1, completion=cb("caller")):
                    await call()
            elif cctx == "scope+updated":
                async with ctx.scope("caller", a1, completion=cb("caller")):
                    with ctx.updated(a2):
                        await call()
            else:
                async with ctx.scope("caller", a2, completion=cb("caller")):
                    async with ctx.scope("inner", a1):
                        await call()

        def extra():
            acts = []
            for rec in executor.pending:
                if not rec["released"]:
                    acts.append(Action("release", f"w{rec['n']}", lambda rec=rec: executor.release(rec)))
            return acts

        w.extra_actions = extra
        driver = w.task(main(), name="driver")
        hbt = w.task(heartbeat(), name="hb") if fam == "asynchronous" else None
        hang = False
        try:
            w.run()
        except Livelock:
            hang = True
        # ---- oracle ----
        witness = f"{fam}/{program.get('kind', program.get('input'))}/{program.get('ctx', '-')}"
        if hang or not driver.done():
            viols.append(viol("termination", witness, "call returns", "pending"))
        elif task_failure(driver) is not None:
            viols.append(viol("transparent", f"driver-error/{witness}", "no error", task_failure(driver)))
        out = got.get("out")
        want_state = {"none": ["MissingContext"], "scope": ["inst", "A#1"], "scope+updated": ["inst", "A#2"], "nested": ["inst", "A#1"]}[program.get("ctx", "none")]
        if fam == "traced" and program.get("ctx", "none") == "none":
            want_state = ["constructed"]  # traced opens its own scope
        if out is not None:
            if out[0] == "other":
                viols.append(viol("transparent", f"foreign-exception/{witness}", "the function's own outcome", out[1]))
            elif outcome in special and not (out[0] == "value" and out[1] is special[outcome]):
                viols.append(viol("transparent", f"{outcome}-result/{witness}", f"the same result object ({outcome})", f"{out[0]}: {type(out[1]).__name__}"))
            elif outcome == "value" and not (out[0] == "value" and out[1] is RESULT):
                viols.append(viol("transparent", f"result/{witness}", "the same result object", out[0]))
            elif outcome in ("raise", "raise_base", "raise_own") and not (out[0] == "raised" and out[1] is boom):
                viols.append(viol("transparent", f"exception/{witness}", "the same exception object", out[0]))
            if seen["calls"] != 1:
                viols.append(viol("transparent", f"calls/{witness}", 1, seen["calls"]))
            elif out[0] != "other":
                want_locals = _expected_bound(raw, args, kwargs, receiver)
                if seen.get("locals") != want_locals:
                    viols.append(viol("arguments", witness, repr(want_locals), repr(seen.get("locals"))))
                if seen.get("state") != want_state:
                    viols.append(viol("caller-context-visible", witness, want_state, seen.get("state")))
            # (only `asynchronous` promises isolation: wrap_async / traced call in the caller's context)
            if fam == "asynchronous" and got.get("after") != got.get("before"):
                viols.append(viol("no-context-leak", witness, got.get("before"), got.get("after")))
        if fam == "asynchronous" and out is not None and out[0] != "other":
            if seen.get("thread") == loop_thread:
                viols.append(viol("off-loop-thread", witness, "a worker thread", "the loop thread"))
            if hbt is not None and hb["steps"] != 2:
                viols.append(viol("loop-keeps-serving", witness, "heartbeat completes", hb["steps"]))
            if program["executor"].startswith("explicit") and executor.count != 1:
                viols.append(viol("executor", f"explicit-not-used/{witness}", 1, executor.count))
        if fam == "traced" and out is not None and out[0] != "other" and seen["calls"] == 1:
            if seen.get("label") != ["scope", "f"]:
                viols.append(viol("traced-scope", f"label/{witness}", ["scope", "f"], seen.get("label")))
            if program.get("ctx", "none") != "none":
                merged = completions.get("caller")
                if merged is None:
                    viols.append(viol("traced-scope", f"no-completion/{witness}", "caller scope completes", None))
                else:
                    at = [m for m in merged if isinstance(m, ArgumentsTrace)]
                    rt = [m for m in merged if isinstance(m, ResultTrace)]
                    want_args = ArgumentsTrace.of(*args, **kwargs)
                    if len(at) != 1 or not (at[0] == want_args):
                        viols.append(viol("traced-arguments", witness, str(want_args), [str(x) for x in at]))
                    want_res = special[outcome] if outcome in special else (boom if outcome != "value" else RESULT)
                    if len(rt) != 1 or rt[0].result is not want_res:
                        viols.append(viol("traced-result", witness, "the produced value / exception", [str(x) for x in rt]))
        if program.get("spawn_inside") and got.get("bg_done_at_return"):
            viols.append(viol("transparent", f"waits-for-spawned-task/{witness}", "the call returns while the task it spawned is still running", "returned only after the task had finished"))
        for cm in leak_cms:
            pass  # never exited on purpose
        nontrivial = bool(kwargs) or len(args) > 1 or outcome != "value" or program.get("ctx", "none") != "none"
        outs = f"{fam}/{out[0] if out else 'none'}/{program.get('ctx', '-')}"
        obs = {"trace": w.trace, "out": out[0] if out else None, "state_in_body": seen.get("state"), "hb": hb.get("steps")}
        return Result(outs, nontrivial, viols[:5], obs, steps=2)
    finally:
        executor.drain()
        w.close()


def _meta(program) -> Result:  # noqa: C901, PLR0912
    viols: list[dict] = []
    deco = program["decorator"]

    def sync_fn(a, b=1):
        """Doc."""
        return a

    async def async_fn(a, b=1):
        """Doc."""
        return a

    original = sync_fn
    try:
        if deco.startswith("stack:"):
            import functools

            outer_name, inner_name = deco[6:].split("-over-")
            base = async_fn if outer_name in ("timeout", "throttle") or inner_name in ("timeout", "throttle") else sync_fn
            outer_deco = {
                "retry": lambda f: retry(limit=2)(f),
                "cache": lambda f: cache(limit=2)(f),
                "traced": traced,
                "throttle": lambda f: throttle(limit=2)(f),
                "timeout": lambda f: timeout(1)(f),
                "asynchronous": asynchronous,
                "wrap_async": wrap_async,
            }[outer_name]
            # history: the outer decorator was applied to the plain function before anything else
            earlier = outer_deco(base) if program.get("pre") else None  # noqa: F841 - kept alive
            if inner_name == "functools-wraps":

                @functools.wraps(base)
                def inner(*a, **k):
                    return base(*a, **k)

            else:
                inner = {
                    "retry": lambda f: retry(limit=2)(f),
                    "cache": lambda f: cache(limit=2)(f),
                    "traced": traced,
                    "throttle": lambda f: throttle(limit=2)(f),
                    "timeout": lambda f: timeout(1)(f),
                }[inner_name](base)
            wrapped = outer_deco(inner)
            if program.get("pre"):
                deco = deco + "/after-decorating-the-plain-function"
            original = inner  # the outer decorator must reference what it actually wrapped
            name = getattr(wrapped, "__name__", None)
            if name != base.__name__:
                viols.append(viol("metadata", f"name/{deco}", base.__name__, name))
            if getattr(wrapped, "__doc__", None) != "Doc.":
                viols.append(viol("metadata", f"doc/{deco}", "Doc.", getattr(wrapped, "__doc__", None)))
            if getattr(wrapped, "__wrapped__", None) is not inner:
                viols.append(viol("metadata", f"wrapped/{deco}", "the function it wrapped (the inner wrapper)", repr(getattr(wrapped, "__wrapped__", None))[:80]))
            return Result(f"meta/{deco}", True, viols, {"decorator": deco, "name": name}, steps=3)
        if deco == "asynchronous":
            wrapped = asynchronous(sync_fn)
        elif deco == "asynchronous()":
            wrapped = asynchronous()(sync_fn)
        elif deco == "wrap_async":
            wrapped = wrap_async(sync_fn)
        elif deco == "traced":
            wrapped = traced(sync_fn)
        elif deco == "traced-async":
            original = async_fn
            wrapped = traced(async_fn)
        elif deco == "cache":
            wrapped = cache(sync_fn)
        elif deco == "cache()":
            wrapped = cache(limit=2)(sync_fn)
        elif deco == "cache-async":
            original = async_fn
            wrapped = cache(async_fn)
        elif deco == "retry":
            wrapped = retry(sync_fn)
        elif deco == "retry()":
            wrapped = retry(limit=2)(sync_fn)
        elif deco == "retry-async":
            original = async_fn
            wrapped = retry(async_fn)
        elif deco == "throttle":
            original = async_fn
            wrapped = throttle(async_fn)
        elif deco == "throttle()":
            original = async_fn
            wrapped = throttle(limit=2)(async_fn)
        elif deco == "timeout":
            original = async_fn
            wrapped = timeout(1)(async_fn)
        elif deco.startswith("grid:"):
            original = async_fn if program["opts"]["fn"] == "async" else sync_fn
            wrapped = _grid_decorate(deco[5:], program["opts"], original)
            deco = deco + "/" + ",".join(f"{k}={v}" for k, v in program["opts"].items() if v != "-")
        elif deco in ("asynchronous-method-nodoc", "cache-method-nodoc"):
            _d = asynchronous if deco.startswith("asynchronous") else cache

            class O3:
                @_d
                def sync_fn(self, a, b=1):
                    return a

            original = O3.__dict__["sync_fn"].__wrapped__
            wrapped = O3().sync_fn
            name = getattr(wrapped, "__name__", None)
            if name != "sync_fn":
                viols.append(viol("metadata", f"name/{deco}", "sync_fn", name))
            if getattr(wrapped, "__doc__", None) is not None:
                viols.append(viol("metadata", f"doc/{deco}", None, getattr(wrapped, "__doc__", None)))
            if getattr(wrapped, "__wrapped__", None) is not original:
                viols.append(viol("metadata", f"wrapped/{deco}", "the original function", repr(getattr(wrapped, "__wrapped__", None))[:80]))
            return Result(f"meta/{deco}", True, viols, {"decorator": deco}, steps=3)
        elif deco == "asynchronous-method":

            class O1:
                @asynchronous
                def sync_fn(self, a, b=1):
                    """Doc."""
                    return a

            original = O1.__dict__["sync_fn"].__wrapped__
            wrapped = O1().sync_fn
        else:

            class O2:
                @cache
                def sync_fn(self, a, b=1):
                    """Doc."""
                    return a

            original = O2.__dict__["sync_fn"].__wrapped__
            wrapped = O2().sync_fn
    except Exception as exc:  # noqa: BLE001
        viols.append(viol("metadata", f"decorate-raises/{deco}", "decorates", f"{type(exc).__name__}: {exc}"[:120]))
        return Result(f"meta/{deco}", True, viols, program, steps=1)
    name = getattr(wrapped, "__name__", None)
    doc = getattr(wrapped, "__doc__", None)
    wr = getattr(wrapped, "__wrapped__", None)
    if name != original.__name__:
        viols.append(viol("metadata", f"name/{deco}", original.__name__, name))
    if doc != "Doc.":
        viols.append(viol("metadata", f"doc/{deco}", "Doc.", doc))
    if wr is not original and wrapped is not original:  # handing back the function itself keeps everything
        viols.append(viol("metadata", f"wrapped/{deco}", "the original function", repr(wr)[:80] if wr is not None else None))
    return Result(f"meta/{deco}", True, viols, {"decorator": deco, "name": name, "doc": doc}, steps=3)
