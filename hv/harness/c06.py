"""C06  Structured concurrency: spawned tasks never outlive their scope.

One async scope (optionally inside an outer scope) with up to k spawned tasks (returning /
failing after 0..2 pauses, spawning a grandchild, spawned from a nested sync scope or update),
body return / raise / cancelled; every interleaving of task steps, releases, failures and the
cancellation point.  Separate mini-programs: spawn outside any scope.
"""

import asyncio
import itertools

from hv import boot  # noqa: F401
from hv.core import Result, task_failure, viol
from hv.scopeprog import Run
from hv.vloop import Livelock
from hv.world import Chooser, World

from haiway import ctx  # noqa: E402

ID = "C06"
TECHNIQUE = "stateless schedule exploration (DFS, prefix replay) over task steps / failures / one cancellation on the real scope + task group; all-done-at-exit and no-waiting-after-failure oracles"
RULE = (
    "one async scope with up to k spawned tasks from {ret after 0/1/2 pauses, raise after 0/1 "
    "pauses, spawn a grandchild, spawned via nested sync scope / update, re-spawn from its "
    "cancellation handler, consume an AsyncQueue the body feeds in its last step}, optionally one disposable whose clean-up raises / suspends, body in {return, raise, "
    "externally cancelled at any quiescent point}, with/without an outer scope; all "
    "interleavings, for <= 2 tasks also with two events landing in one loop iteration; a body that requests its own cancellation and returns / a task carrying an earlier handled request; plus spawn outside any scope (also in a second event loop); non-trivial = at least one spawned task was "
    "still running when the body ended, or a task failed"
)
RULE += ' Rounds 10-11: DEEP nesting of 4-6 (8) async scopes with tasks spawned at the innermost / every level; tasks spawned from callables that are not coroutine functions; MANY spawned tasks (4-9 (12), deviation bound 2 (3)).'
ASSUMPTIONS = [
    "spawned tasks do not swallow cancellation",
    "asyncio FIFO callback order",
]
BOUNDS = {"quick": {"max_spawns": 2, "plus": "3 spawns without cancellation"}, "thorough": {"max_spawns": 3, "plus": "4 spawns, one grandchild, no cancellation"}}
EXHAUSTIVE = {"quick": True, "thorough": True}
SAMPLE_EVERY = {"quick": 9000, "thorough": 200000}

SPAWNS = [
    {"kind": "ret", "pauses": 0},
    {"kind": "ret", "pauses": 1},
    {"kind": "ret", "pauses": 2},
    {"kind": "raise", "pauses": 0},
    {"kind": "raise", "pauses": 1},
    {"kind": "grand", "pauses": 1},
    {"kind": "ret", "pauses": 1, "via": "sscope"},
    {"kind": "ret", "pauses": 1, "via": "updated"},
    {"kind": "respawn", "pauses": 1},
    {"kind": "queue", "pauses": 0},  # consumer of an AsyncQueue fed by the body right before it ends
]

# disposables whose clean-up fails or suspends: leaving the block must still wait for / cancel
# the spawned tasks
DISPOSABLES = [
    [],
    [{"enter": "ok", "exit": "raise", "yields": "none"}],
    [{"enter": "ok", "exit": "susp_ok", "yields": "none"}],
    [{"enter": "ok", "exit": "ok", "yields": "none", "signals": True}],
    # two failing cleanups, one of them with a BaseException that is not an Exception
    [{"enter": "ok", "exit": "raise", "yields": "none"}, {"enter": "ok", "exit": "raise_base", "yields": "none"}],
    # two distinct disposables that compare equal; the later one is the resource a task waits for
    [{"enter": "ok", "exit": "ok", "yields": "none", "twin": True}, {"enter": "ok", "exit": "ok", "yields": "none", "twin": True, "signals": True}],
]


def _prog(combo, ending, cancels, outer, disp=0):
    return {
        "outer": outer,
        "block": {
            "kind": "ascope",
            "supply": ["A"],
            "disp": [dict(d) for d in DISPOSABLES[disp]],
            "spawns": [dict(SPAWNS[i]) for i in combo],
            "pause": True,
            "ending": ending,
        },
        "cancels": cancels,
    }


def programs(tier: str):
    yield {"detached": True, "pauses": 1}
    yield {"detached": True, "pauses": 0}
    for mode in ("cancel-then-return", "prior-handled"):
        for n in (1, 2):
            for yield_first in (False, True):
                yield {"selfcancel": True, "mode": mode, "workers": n, "yield_first": yield_first}
    yield {"detached": True, "pauses": 1, "loops": 2}
    yield {"detached": True, "pauses": 0, "loops": 2, "after": "scope-returned"}
    for how in ("aclose", "break"):
        for place in ("in-scope", "outside"):
            yield {"stream": True, "close": how, "place": place}
    for ending in ("return", "raise"):
        yield {"enter_cancelled": True, "ending": ending}
    for after in ("scope-returned", "scope-raised", "scope-cancelled", "scope-cancelled-in-exit", "scope-cancelled+task-fails-on-cancel", "scope-raised+task-fails-on-cancel", "scope-cancelled-in-exit+task-fails-on-cancel"):
        yield {"detached": True, "pauses": 1, "after": after}
    kmax = BOUNDS[tier]["max_spawns"]
    for k in range(0, kmax + 1):
        for combo in itertools.combinations_with_replacement(range(len(SPAWNS)), k):
            for ending, cancels in (("return", 0), ("raise", 0), ("raise_base", 0), ("raise_falsy", 0), ("raise_badstr", 0), ("return", 1), ("raise", 1)):
                for outer in (False, True):
                    if outer and (k == kmax or ending in ("raise_base", "raise_falsy", "raise_badstr") or (ending == "raise" and cancels)):
                        continue
                    yield _prog(combo, ending, cancels, outer)
                    if not outer and 1 <= k <= 2:
                        for d in (1, 2, 4):
                            yield _prog(combo, ending, cancels, outer, d)
    # two environment events landing in the same loop iteration (a spawned task ends in the very
    # iteration in which the body ends): the exit runs before the group has processed the task's end
    for k in (1, 2):
        for combo in itertools.combinations_with_replacement(range(len(SPAWNS)), k):
            for ending in ("return", "raise"):
                p = _prog(combo, ending, 0, False)
                p["batch"] = 2
                yield p
    # the external cancellation injected between two loop iterations (not only at quiescence)
    for k in (0, 1, 2):
        for combo in itertools.combinations_with_replacement(range(len(SPAWNS)), k):
            for d in (0, 1, 2):
                if d and k == 2:
                    continue
                p = _prog(combo, "return", 1, False, d)
                p["fine"] = True
                yield p
    # a spawned task that only ends when a disposable of the same scope is closed: the resources
    # are released before the block waits for its tasks
    for n_wait in (1, 2):
        for ending, cancels in (("return", 0), ("raise", 0), ("return", 1)):
            for dvar in (3, 5):
                p = _prog((), ending, cancels, False, dvar)
                p["block"]["spawns"] = [{"kind": "wait_dispose", "pauses": 0} for _ in range(n_wait)] + [dict(SPAWNS[1])]
                yield p
    # DEEP nesting: 4..6 (8) asynchronous scopes (optionally with sync scopes / updates between
    # them) nested in each other, tasks spawned at the innermost level / at every level: each
    # block waits for (or cancels) exactly the tasks spawned into it
    for depth in (4, 5, 6) if tier == "quick" else (4, 5, 6, 8):
        for pattern in ("a", "as", "aua"):
            for where in ("innermost", "every"):
                for sp in (1, 3):
                    for ending, cancels in (("return", 0), ("raise", 0), ("return", 1)):
                        if cancels and (depth > 4 or where == "every"):
                            continue
                        blk = None
                        for lvl in reversed(range(depth)):
                            kind = {"a": "ascope", "s": "sscope", "u": "updated"}[pattern[lvl % len(pattern)]]
                            b = {"kind": kind, "supply": ["A"], "pause": lvl == depth - 1, "ending": ending if lvl == depth - 1 else "return"}
                            if kind == "ascope":
                                b["disp"] = []
                                b["spawns"] = [dict(SPAWNS[sp])] if (where == "every" or lvl == depth - 1 or (lvl == depth - 2 and pattern != "a")) else []
                            if blk is not None:
                                b["child"] = blk
                            blk = b
                        yield {"outer": False, "block": blk, "cancels": cancels, "deep": depth}
    # a block named with formatting characters, a blocked task is waiting
    for suffix in (" 100%", " %s"):
        for ending in ("return", "raise"):
            p = _prog((1,), ending, 0, False)
            p["scope_name_suffix"] = suffix
            yield p
    # tasks spawned from callables that are not plain coroutine functions
    for form in ("object", "lambda", "partial", "wrapped"):
        for i in (1, 3):
            for ending, cancels in (("return", 0), ("raise", 0), ("return", 1)):
                p = _prog((i,), ending, cancels, False)
                p["block"]["spawns"][0]["callable"] = form
                yield p
    # MANY spawned tasks (4, 5, 6, 9): all of one simple kind, or one of them different
    for k in (4, 5, 6, 9) if tier == "quick" else (4, 5, 6, 9, 12):
        for base, odd in ((1, None), (1, 3), (0, 1), (1, 0)):
            for ending in ("return", "raise"):
                combo = [base] * k
                if odd is not None:
                    combo[-1] = odd
                p = _prog(tuple(combo), ending, 0, False)
                p["many"] = k
                yield p
    extra_k = kmax + 1
    pool = [0, 1, 3, 4, 5] if tier == "quick" else [1, 2, 4, 5]
    for combo in itertools.combinations_with_replacement(pool, extra_k):
        if tier == "thorough" and sum(1 for i in combo if i == 5) > 1:
            continue
        for ending in ("return", "raise"):
            yield _prog(combo, ending, 0, False)


DECLARED_DEVIATION_BOUND = {"quick": 2, "thorough": 3}  # for the MANY-spawned-tasks family only


def explore_config(tier: str, program) -> dict:
    if program.get("many"):
        # 4..12 blocked tasks: every release order is factorial; all schedules with at most 2 (3)
        # non-default choices are explored
        return {"cap": 400000, "bound": DECLARED_DEVIATION_BOUND[tier]}
    return {"cap": 400000}


def _self_cancel(program, ch: Chooser) -> Result:
    """the body asks for its own cancellation as its last step and returns (no suspension point in
    between), or the task carries an earlier, handled cancellation request: in both cases the
    spawned tasks are finished when the block is left"""
    w = World(ch)
    viols: list[dict] = []
    n, mode = program["workers"], program["mode"]
    workers: list[asyncio.Task] = []
    st: dict = {}
    try:

        async def worker(k):
            await w.pause(f"wk{k}", low=True)

        async def main():
            if mode == "prior-handled":
                try:
                    async with ctx.scope("earlier"):
                        ctx.cancel()
                        await asyncio.sleep(0)
                except asyncio.CancelledError:
                    pass  # handled by the caller; the request count of the task is not reset
            try:
                async with ctx.scope("block"):
                    for k in range(n):
                        workers.append(ctx.spawn(worker, k))
                    if program["yield_first"]:
                        await asyncio.sleep(0)
                    if mode == "cancel-then-return":
                        ctx.cancel()
                st["left"] = "returned"
            except asyncio.CancelledError:
                st["left"] = "cancelled"
            except BaseException as exc:  # noqa: BLE001
                st["left"] = f"{type(exc).__name__}: {exc}"[:80]
            st["pending_when_left"] = [t.get_name() for t in workers if not t.done()]

        t = w.task(main(), name="victim")
        try:
            w.run()
        except Livelock:
            pass
        witness = f"self-cancel/{mode}/workers={n}"
        if not t.done():
            viols.append(viol("termination", witness, "leaving the block terminates", "pending"))
        elif st.get("pending_when_left"):
            viols.append(viol("all-done-at-exit", f"task-outlives-scope/{witness}", "every spawned task is finished when the block is left", st["pending_when_left"], left=st.get("left")))
        if mode == "cancel-then-return" and t.done() and st.get("left") == "cancelled":
            awaited = [x.get_name() for x in workers if x.done() and not x.cancelled()]
            if awaited:
                viols.append(viol("cancelled-not-awaited", witness, "remaining spawned tasks are cancelled", awaited))
        return Result(f"selfcancel/{mode}/{st.get('left')}", True, viols, {"left": st.get("left"), "trace": w.trace})
    finally:
        w.close()


def _detached(program, ch: Chooser) -> Result:
    if program.get("loops", 1) == 1:
        return _detached_once(program, ch)
    # the same process runs a second event loop after the first one was closed (two asyncio.run
    # calls): a spawn outside any scope still yields a detached task running in the CURRENT loop
    first = _detached_once(program, ch)
    second = _detached_once(program, ch)
    viols = list(first.violations)
    for v in second.violations:
        v = dict(v)
        v["signature"] = v["signature"] + "/in-second-event-loop"
        viols.append(v)
    return Result(second.outcome + "/2-loops", True, viols, {"first": first.obs, "second": second.obs})


def _detached_once(program, ch: Chooser) -> Result:
    w = World(ch)
    viols: list[dict] = []
    try:
        st = {"task": None, "done_when_driver_returned": None, "end": None}

        async def child():
            for k in range(program["pauses"]):
                await w.pause(f"child.p{k}")
            st["end"] = "ret"
            return 5

        async def blocked():
            await w.pause("inner.blocked")

        async def fails_when_cancelled():
            try:
                await w.pause("inner.blocked")
            except asyncio.CancelledError:
                raise ValueError("clean-up of the spawned task failed") from None

        async def main():
            after = program.get("after")
            if after:
                # a scope was entered and left before (also by a cancellation the task survives):
                # afterwards the task is outside any scope again
                try:
                    async with ctx.scope("before"):
                        if after == "scope-raised":
                            raise ValueError("body")
                        if after == "scope-cancelled":
                            asyncio.current_task().cancel()
                            await asyncio.sleep(0)
                        if after == "scope-cancelled-in-exit":
                            ctx.spawn(blocked)
                            w.loop.call_soon(asyncio.current_task().cancel)
                        if after == "scope-cancelled+task-fails-on-cancel":
                            # the body is cancelled AND a spawned task fails while being cancelled
                            ctx.spawn(fails_when_cancelled)
                            await asyncio.sleep(0)
                            asyncio.current_task().cancel()
                            await asyncio.sleep(0)
                        if after == "scope-raised+task-fails-on-cancel":
                            ctx.spawn(fails_when_cancelled)
                            await asyncio.sleep(0)
                            raise ValueError("body")
                        if after == "scope-cancelled-in-exit+task-fails-on-cancel":
                            ctx.spawn(fails_when_cancelled)
                            await asyncio.sleep(0)
                            w.loop.call_soon(asyncio.current_task().cancel)
                except ValueError:
                    pass
                except asyncio.CancelledError:
                    asyncio.current_task().uncancel()
            try:
                st["task"] = ctx.spawn(child)
            except BaseException as exc:  # noqa: BLE001
                st["spawn_error"] = f"{type(exc).__name__}: {exc}"[:120]

        driver = w.task(main(), name="driver")
        w.settle()
        st["done_when_driver_returned"] = st["task"].done() if st["task"] else None
        if not driver.done():
            viols.append(viol("detached", "driver-waits", "driver returns at once", "blocked"))
        if st.get("spawn_error"):
            viols.append(viol("detached", f"spawn-raises/{program.get('after', 'fresh')}", "a detached running task", st["spawn_error"]))
        elif st["task"] is None or not isinstance(st["task"], asyncio.Task):
            viols.append(viol("detached", "no-task", "a running task", repr(st["task"])))
        try:
            w.run()
        except Livelock:
            pass
        if st["task"] is not None:
            if not st["task"].done() or st["task"].cancelled() or st["task"].result() != 5:
                viols.append(viol("detached", "task-does-not-complete", "result 5", "not done / cancelled"))
        obs = {"trace": w.trace, "done_at_return": st["done_when_driver_returned"]}
        return Result(f"detached/p={program['pauses']}/{program.get('after', 'fresh')}", True, viols, obs)
    finally:
        w.close()


def _stream(program, ch: Chooser) -> Result:
    """a context stream has its own scope: tasks its source spawns there are cancelled when the
    stream is closed early (they never outlive the stream's scope)"""
    import gc

    w = World(ch)
    viols: list[dict] = []
    try:
        spawned: list = []
        ends: list = []

        async def blocked():
            try:
                await w.loop.create_future()
            except asyncio.CancelledError:
                ends.append("cancelled")
                raise

        async def source():
            for i in range(3):
                spawned.append(ctx.spawn(blocked))
                yield i

        st: dict = {}

        async def consume():
            stream = ctx.stream(source)
            it = stream.__aiter__()
            await it.__anext__()
            if program["close"] == "aclose":
                await it.aclose()
            del it, stream
            st["after_close"] = [t.done() for t in spawned]

        async def main():
            if program["place"] == "in-scope":
                async with ctx.scope("outer"):
                    await consume()
            else:
                await consume()

        t = w.task(main(), name="driver")
        try:
            w.run()
        except Livelock:
            pass
        for _ in range(3):
            gc.collect()
            w.settle()
        alive = [i for i, tk in enumerate(spawned) if not tk.done()]
        if not t.done():
            viols.append(viol("termination", "stream-close-hangs", "driver finishes", "pending"))
        if program["close"] == "aclose" and st.get("after_close") and not all(st["after_close"]):
            viols.append(viol("all-done-at-exit", "stream-scope/task-outlives-aclose", "all done when aclose() returns", st["after_close"]))
        if alive:
            viols.append(viol("all-done-at-exit", f"stream-scope/task-outlives-{program['close']}", "tasks of the stream's scope are cancelled", f"{len(alive)} still running"))
        return Result(f"stream/{program['close']}/{program['place']}", True, viols, {"ends": ends, "after_close": st.get("after_close")})
    finally:
        w.close()


def _enter_cancelled(program, ch: Chooser) -> Result:
    """outer scope; a nested scope's suspended disposable enter is cancelled and the cancellation
    handled; tasks spawned afterwards belong to the outer scope: awaited on return, cancelled on
    failure - never left running"""
    from hv.ctxkit import Disp

    w = World(ch)
    viols: list[dict] = []
    try:
        spawned: list = []
        st: dict = {}

        class Slow(Disp):
            async def __aenter__(self):
                await w.loop.create_future()

        async def child():
            await w.pause("late-child")

        async def main():
            try:
                async with ctx.scope("outer"):
                    try:
                        w.loop.call_soon(asyncio.current_task().cancel)
                        async with ctx.scope("inner", disposables=[Slow(None)]):
                            st["inner_body"] = True
                    except asyncio.CancelledError:
                        asyncio.current_task().uncancel()
                    spawned.append(ctx.spawn(child))
                    if program["ending"] == "raise":
                        raise ValueError("outer body fails")
            except ValueError:
                pass
            st["done_at_return"] = [t.done() for t in spawned]

        t = w.task(main(), name="driver")
        try:
            w.run()
        except Livelock:
            pass
        if task_failure(t) is not None:
            viols.append(viol("termination", "enter-cancelled/driver", "driver finishes", task_failure(t)[:120]))
        elif not all(st.get("done_at_return", [False])):
            viols.append(
                viol("all-done-at-exit", f"task-outlives-scope/after-cancelled-nested-enter/body-{program['ending']}", "task spawned into the outer scope is finished when it is left", st.get("done_at_return"))
            )
        return Result(f"enter-cancelled/{program['ending']}", True, viols, {"trace": w.trace, "done": st.get("done_at_return")})
    finally:
        w.close()


def execute(program, ch: Chooser) -> Result:  # noqa: C901, PLR0912
    if program.get("enter_cancelled"):
        return _enter_cancelled(program, ch)
    if program.get("stream"):
        return _stream(program, ch)
    if program.get("selfcancel"):
        return _self_cancel(program, ch)
    if program.get("detached"):
        return _detached(program, ch)
    r = Run(program, ch, cancels=program["cancels"], batch=program.get("batch", 1), fine=program.get("fine", False))
    viols: list[dict] = []
    waited: list = []

    def on_quiescent() -> None:
        # after a failed / cancelled body the exit must not sit waiting for blocked tasks
        if r.driver is None or r.driver.done() or r.phase[0] != "exiting" or not isinstance(r.phase[1], int):
            return
        bid = r.phase[1]
        failed = bid in r.body_exc
        if any(d.in_exit for d in r.disp.get(bid, [])):
            return  # the exit is waiting for a disposable's clean-up, not for the tasks (yet)
        if failed and not waited:
            # (a task that has been asked to cancel and is still cleaning up is legitimately awaited)
            blocked = [s["name"] for s in r.all_spawned if (bid == 0 or s.get("owner") == bid) and s["task"] is not None and not s["task"].done() and s["task"].cancelling() == 0]
            if blocked:
                waited.append(blocked)

    r.w.on_quiescent = on_quiescent
    try:
        r.execute()
        caught = r.caught.get(0)
        cancelled = bool(r.w.cancelled_at)
        obs = {
            "trace": r.w.trace,
            "caught": type(caught).__name__ if caught else None,
            "tasks": [[s["name"], s["end"], s["task"].done() if s["task"] else None] for s in r.all_spawned],
            "at_return": r.at_return.get(0),
        }
        if r.hang or r.driver is None or not r.driver.done():
            viols.append(viol("termination", "exit-hangs", "leaving the block terminates", obs["tasks"]))
        else:
            alive = [t["name"] for bid_ in sorted(k_ for k_ in r.at_return if isinstance(k_, int)) for t in r.at_return.get(bid_, []) if not t["done"]]
            if alive:
                viols.append(
                    viol(
                        "all-done-at-exit",
                        f"task-outlives-scope/body-{program['block']['ending']}{'-cancelled' if cancelled else ''}",
                        "every spawned task finished when the block is left",
                        alive,
                        trace=r.w.trace,
                    )
                )
        if waited:
            viols.append(
                viol("cancel-on-failure", "exit-awaits-blocked-tasks", "remaining tasks are cancelled", waited[0], trace=r.w.trace)
            )
        if r.spawn_errors:
            viols.append(viol("spawn", "spawn-raises", "a task", r.spawn_errors[:2]))
        body_failed = caught is not None
        running_at_end = any(s["end"] == "cancelled" for s in r.all_spawned)
        failed_task = any(s["end"] == "raise" for s in r.all_spawned)
        outcome = f"k={len(program['block']['spawns'])}/caught={obs['caught']}/cancelled-children={running_at_end}/failed-child={failed_task}"
        viols.extend(r.library_errors())
        return Result(outcome, running_at_end or failed_task or body_failed, viols[:4], obs)
    finally:
        r.close()
