"""C04  State instances are immutable values with copy-on-update semantics.

Two families.  "history": for every instance of a catalogue of state classes, every sequence of
up to L operations (mutation attempts on the instance, on its stored containers and on the
original argument containers, updated(**kw) for attribute subsets with valid / invalid / unknown
replacements, copy, deepcopy); after every operation the instance must be observably unchanged.
"equality": the full pair matrix of all instances.
"""

import collections
import collections.abc
import copy
import itertools
from collections.abc import Mapping, Sequence, Set
from typing import Any, Literal

from hv import boot  # noqa: F401
from hv import annkit as ak
from hv.core import Result, viol
from hv.world import Chooser

from haiway import MISSING, Missing, State  # noqa: E402

ID = "C04"
TECHNIQUE = "explicit-state search over operation histories (mutation attempts, updated, copy, deepcopy) on real State instances with a 'value never changes' reference, plus the exhaustive equality pair matrix"
RULE = (
    "catalogue of 24 state classes (scalars, Sequence/Set/Mapping/tuple attributes, nested, "
    "recursive, generic-specialised, Missing-typed, Literal-typed, defaulted, containers of containers (outer container passed as list or as tuple), subclass, "
    "Any-typed) x 2-3 instances built from mutable argument containers (also read-only views of "
    "dicts the caller keeps) x every operation history up to length L (mutation attempts, updated "
    "with valid / unknown / invalid / falsy-invalid / equal-but-invalid replacements, copy, deepcopy); "
    "equality: all ordered pairs (and triples for transitivity) of instances; non-trivial = the "
    "history mutates an original argument container or derives an updated copy, or the pair is "
    "of the same class"
)
RULE += ' Rounds 10-13: LONG containers (16-300 elements) for 11 classes; containers passed to updated() mutated afterwards; re-entrant construction / update through a lazy sequence building instances of the same class.'
ASSUMPTIONS = [
    "attributes annotated Any are not used (the conversion clause is about declared containers)",
    "object.__setattr__ abuse is out of scope",
]
BOUNDS = {"quick": {"L": 2}, "thorough": {"L": 3}}
EXHAUSTIVE = {"quick": True, "thorough": True}
SAMPLE_EVERY = {"quick": 4000, "thorough": 90000}


class Scalars(State):
    a: int
    b: str = "x"
    c: float = 1.5


class SeqS(State):
    items: Sequence[int]


class SetS(State):
    tags: Set[str]


class MapS(State):
    m: Mapping[str, int]


class Tup2(State):
    t: tuple[int, str]


class TupV(State):
    t: tuple[int, ...]


class Nested(State):
    inner: ak.Inner
    items: Sequence[ak.Inner] = ()


class MissT(State):
    m: int | Missing = MISSING
    n: int = 0


class Defaults(State):
    x: int = 1
    y: Sequence[int] = (1, 2)


class SeqSeq(State):
    rows: Sequence[Sequence[int]]


class MapSeq(State):
    m: Mapping[str, Sequence[int]]


class SeqMap(State):
    rows: Sequence[Mapping[str, int]]


class OptS(State):
    o: Sequence[int] | None = None


class SeqSet(State):
    groups: Sequence[Set[int]]


class MapMap(State):
    table: Mapping[str, Mapping[str, int]]
    deep: Mapping[str, Sequence[Mapping[str, int]]] | None = None


class Lit(State):
    mode: Literal["fast", "safe"] = "fast"
    level: Literal["lo", "hi"] | Missing = MISSING  # (strings: an ==-equal float for an int Literal is unspecified)
    name: str = "n"


class Sub(Scalars):
    pass


class AnyS(State):
    # Any is stored as given (no conversion promised): argument mutators are not applied to it,
    # but copy / deepcopy / updated / equality clauses are
    v: Any
    w: Sequence[int] = ()


class Opaque(State):
    """holds an arbitrary object as given: an object that claims to equal everything (a wildcard
    matcher) is still the value that was supplied"""

    h: Any
    n: int = 0


OPAQUE1, OPAQUE2 = ak.AlwaysEq(), ak.AlwaysEq()

ALIASING_ALLOWED = {"AnyS"}


_PROXY_SRC: dict[int, dict] = {}


def _proxy(d: dict):
    """a read-only *view* of a dict the caller keeps (and may mutate later)"""
    from types import MappingProxyType

    p = MappingProxyType(d)
    _PROXY_SRC[id(p)] = d
    return p


# name -> (class, [argument builders])  (builders return fresh mutable containers)
CATALOGUE: dict[str, tuple[type, list]] = {
    "Scalars": (Scalars, [lambda: {"a": 1}, lambda: {"a": 2, "b": "y", "c": 2.5}]),
    "Sub": (Sub, [lambda: {"a": 1}]),
    "SeqS": (SeqS, [lambda: {"items": [1, 2]}, lambda: {"items": []}]),
    "SetS": (SetS, [lambda: {"tags": {"p", "q"}}, lambda: {"tags": set()}]),
    "MapS": (MapS, [lambda: {"m": {"ab": 1, "k": 2}}, lambda: {"m": {}}, lambda: {"m": _proxy({"ab": 1, "k": 2})}]),
    "Tup2": (Tup2, [lambda: {"t": (1, "s")}]),
    "TupV": (TupV, [lambda: {"t": (1, 2, 3)}]),
    "Nested": (
        Nested,
        [lambda: {"inner": ak.Inner(x=1)}, lambda: {"inner": ak.Inner(x=2), "items": [ak.Inner(x=3)]}],
    ),
    "Node": (ak.Node, [lambda: {"value": 1}, lambda: {"value": 1, "next": ak.Node(value=2)}]),
    "BoxInt": (ak.Box[int], [lambda: {"item": 1}]),
    "GInt": (ak.GI[int], [lambda: {"v": 1}, lambda: {}]),
    # two specialisations of one generic whose arguments carry the same name ("Sequence")
    "GSeqInt": (ak.GI[Sequence[int]], [lambda: {"v": [1]}, lambda: {"v": []}, lambda: {}]),
    "GSeqStr": (ak.GI[Sequence[str]], [lambda: {"v": ["a"]}, lambda: {"v": []}, lambda: {}]),
    "MissT": (MissT, [lambda: {}, lambda: {"m": 3, "n": 1}, lambda: {"m": 3}]),
    "Defaults": (Defaults, [lambda: {}, lambda: {"y": [5]}]),
    "SeqSeq": (SeqSeq, [lambda: {"rows": [[1], [2, 3]]}]),
    "MapSeq": (MapSeq, [lambda: {"m": {"ab": [1, 2]}}]),
    "SeqMap": (SeqMap, [lambda: {"rows": [{"ab": 1}]}, lambda: {"rows": [_proxy({"ab": 1})]}, lambda: {"rows": ({"ab": 1}, {"k": 2})}]),
    "MapMap": (MapMap, [lambda: {"table": {"a": {"x": 1}}}, lambda: {"table": {"a": {"x": 1}, "b": {}}, "deep": {"k": [{"y": 2}]}}, lambda: {"table": {}}]),
    "SeqSet": (SeqSet, [lambda: {"groups": [{1, 2}]}, lambda: {"groups": ({1, 2}, {3})}]),
    "Lit": (Lit, [lambda: {}, lambda: {"mode": "safe", "level": "hi"}]),
    "OptS": (OptS, [lambda: {}, lambda: {"o": [1]}]),
    "Opaque": (Opaque, [lambda: {"h": OPAQUE1}, lambda: {"h": OPAQUE1, "n": 3}]),
    "AnyS": (AnyS, [lambda: {"v": [1, 2, 3]}, lambda: {"v": {"k": [1]}, "w": [4]}, lambda: {"v": range(3)}]),
}

class Grid[T](State):
    """the type variable sits two container levels deep"""

    cells: Sequence[Sequence[T]]
    index: Mapping[str, Sequence[T]] | None = None


def hook_one(x):
    raise AssertionError("a stored callable must never be called by the library")


def hook_two(x):
    raise AssertionError("a stored callable must never be called by the library")


class _TheRunner:
    """a protocol object with identity semantics that survives copying as itself"""

    def run(self) -> int:
        raise AssertionError("never called by the library")

    def __copy__(self):
        return self

    def __deepcopy__(self, memo):
        return self

    def __repr__(self) -> str:
        return "TheRunner()"


RUNNER_A, RUNNER_B = _TheRunner(), _TheRunner()


class Hooks(State):
    """attributes that HOLD callables / protocol objects / arbitrary objects: a callable given as a
    replacement is a value to be stored, not something to be called"""

    cb: "collections.abc.Callable[[int], int] | None" = None
    runner: ak.Runner | None = None
    anyv: Any = None
    n: int = 0


# LONG containers (16, 17, 40, 300 elements; long inner containers): an implementation that treats
# big payloads differently (sharing instead of copying, chunked conversion) must still detach the
# instance from the caller's containers
CATALOGUE.update(
    {
        "MapS/kinds": (MapS, [lambda: {"m": collections.OrderedDict(ab=1, k=2)}, lambda: {"m": collections.defaultdict(int, ab=1)}, lambda: {"m": collections.Counter(ab=1, k=2)}, lambda: {"m": type("MyDict", (dict,), {})(ab=1)}]),
        "GridMap": (Grid[Mapping[str, int]], [lambda: {"cells": [[{"ab": 1}], [{"k": 2}, {}]]}, lambda: {"cells": [], "index": {"i": [{"ab": 1}]}}]),
        "GridInt": (Grid[int], [lambda: {"cells": [[1, 2], [3]]}]),
        "Scalars/neg": (Scalars, [lambda: {"a": -1}, lambda: {"a": -2, "b": "", "c": -0.0}]),
        "Hooks": (Hooks, [lambda: {}, lambda: {"cb": hook_one, "anyv": hook_one, "runner": RUNNER_A, "n": 1}]),
        "SeqS/long": (SeqS, [lambda: {"items": list(range(16))}, lambda: {"items": list(range(17))}, lambda: {"items": list(range(40))}, lambda: {"items": list(range(300))}]),
        "SetS/long": (SetS, [lambda: {"tags": {f"t{i}" for i in range(17)}}, lambda: {"tags": {f"t{i}" for i in range(70)}}]),
        "MapS/long": (MapS, [lambda: {"m": {f"k{i}": i for i in range(17)}}, lambda: {"m": _proxy({f"k{i}": i for i in range(33)})}, lambda: {"m": {f"k{i}": i for i in range(64)}}, lambda: {"m": {f"k{i}": i for i in range(129)}}]),
        "TupV/long": (TupV, [lambda: {"t": tuple(range(17))}, lambda: {"t": list(range(33))}]),
        "SeqSeq/long": (SeqSeq, [lambda: {"rows": [list(range(17)), [1]]}, lambda: {"rows": [[i] for i in range(17)]}]),
        "MapSeq/long": (MapSeq, [lambda: {"m": {"ab": list(range(20))}}, lambda: {"m": {f"k{i}": [i] for i in range(17)}}]),
        "GSeqInt/long": (ak.GI[Sequence[int]], [lambda: {"v": list(range(17))}]),
        "GSeqStr/long": (ak.GI[Sequence[str]], [lambda: {"v": [f"s{i}" for i in range(17)]}]),
        "Defaults/long": (Defaults, [lambda: {"y": list(range(17))}]),
        "Nested/long": (Nested, [lambda: {"inner": ak.Inner(x=1), "items": [ak.Inner(x=i) for i in range(17)]}]),
        "OptS/long": (OptS, [lambda: {"o": list(range(17))}]),
    }
)

# replacement values per (class, attribute): (valid other value builder, invalid value)
REPLACE: dict[str, dict[str, tuple]] = {
    "Scalars": {"a": (lambda: 9, "bad", ""), "b": (lambda: "z", 7, 0), "c": (lambda: 9.5, "bad", "")},
    "Sub": {"a": (lambda: 9, "bad", ""), "b": (lambda: "z", 7, 0)},
    "SeqS": {"items": (lambda: [7, 8, 9], ["bad"], 0)},
    "SetS": {"tags": (lambda: {"z"}, {1}, 0)},
    "MapS": {"m": (lambda: {"zz": 9}, {"k": "bad"}, 0)},
    "Tup2": {"t": (lambda: (9, "z"), (9, 9), ())},
    "TupV": {"t": (lambda: (9,), ("bad",), 0)},
    "Nested": {"inner": (lambda: ak.Inner(x=9), 7, 0), "items": (lambda: [ak.Inner(x=8)], [7], 0)},
    "Node": {"value": (lambda: 9, "bad", ""), "next": (lambda: ak.Node(value=5), 7, 0)},
    "BoxInt": {"item": (lambda: 9, "bad", "")},
    "GInt": {"v": (lambda: 9, "bad", "")},
    "GSeqInt": {"v": (lambda: [9], ["bad"], 0)},
    "GSeqStr": {"v": (lambda: ["z"], [7], 0)},
    "MissT": {"m": (lambda: 9, "bad", ""), "n": (lambda: 4, "bad", "")},
    "Defaults": {"x": (lambda: 9, "bad", ""), "y": (lambda: [9], ["bad"], 0)},
    "SeqSeq": {"rows": (lambda: [[9]], [["bad"]], 0)},
    "MapSeq": {"m": (lambda: {"q": [9]}, {"q": ["bad"]}, 0)},
    "SeqMap": {"rows": (lambda: [{"q": 9}], [{"q": "bad"}], 0)},
    "MapMap": {"table": (lambda: {"z": {"q": 9}}, {"z": {"q": "bad"}}, 0), "deep": (lambda: {"z": [{"q": 9}]}, {"z": [{"q": "bad"}]}, 0)},
    "SeqSet": {"groups": (lambda: ({9}, {8}), [{"bad"}], 0)},
    # invalid replacements of the SAME plain type as the current value
    "Lit": {"mode": (lambda: "safe", "turbo", ""), "level": (lambda: "lo", "mid", 0), "name": (lambda: "z", 7, 0)},
    "OptS": {"o": (lambda: [9], ["bad"], 0)},
    "Opaque": {"h": (lambda: OPAQUE2, None, None), "n": (lambda: 9, "bad", "")},
    "AnyS": {"v": (lambda: [7], None, None), "w": (lambda: [9], ["bad"], 0)},
}


REPLACE.update(
    {
        "MapS/kinds": {"m": (lambda: collections.OrderedDict(zz=9), {"k": "bad"}, 0)},
        "GridMap": {"cells": (lambda: [[{"q": 9}]], [[{"q": "bad"}]], 0), "index": (lambda: {"z": [{"q": 9}]}, {"z": [{"q": "bad"}]}, 0)},
        "GridInt": {"cells": (lambda: [[9]], [["bad"]], 0)},
        "Scalars/neg": {"a": (lambda: -2, "bad", ""), "b": (lambda: "z", 7, 0), "c": (lambda: 0.0, "bad", "")},
        "Hooks": {"cb": (lambda: hook_two, 7, 0), "anyv": (lambda: hook_two, None, None), "runner": (lambda: RUNNER_B, 7, 0)},
        "SeqS/long": {"items": (lambda: list(range(100, 230)), list(range(64)) + ["bad"], 0)},
        "SetS/long": {"tags": (lambda: {f"z{i}" for i in range(18)}, {f"z{i}" for i in range(18)} | {1}, 0)},
        "MapS/long": {"m": (lambda: {f"z{i}": i for i in range(70)}, {**{f"z{i}": i for i in range(70)}, "k": "bad"}, 0)},
        "TupV/long": {"t": (lambda: tuple(range(50, 70)), tuple(range(19)) + ("bad",), 0)},
        "SeqSeq/long": {"rows": (lambda: [list(range(18))], [list(range(18)) + ["bad"]], 0)},
        "MapSeq/long": {"m": (lambda: {"q": list(range(18))}, {"q": list(range(18)) + ["bad"]}, 0)},
        "GSeqInt/long": {"v": (lambda: list(range(18)), list(range(18)) + ["bad"], 0)},
        "GSeqStr/long": {"v": (lambda: [f"z{i}" for i in range(18)], [f"z{i}" for i in range(18)] + [7], 0)},
        "Defaults/long": {"x": (lambda: 9, "bad", ""), "y": (lambda: list(range(18)), list(range(18)) + ["bad"], 0)},
        "Nested/long": {"inner": (lambda: ak.Inner(x=9), 7, 0), "items": (lambda: [ak.Inner(x=i) for i in range(18)], [ak.Inner(x=i) for i in range(18)] + [7], 0)},
        "OptS/long": {"o": (lambda: list(range(18)), list(range(18)) + ["bad"], 0)},
    }
)


class RNode(State):
    name: str
    weight: int
    children: Sequence["RNode"] = ()
    note: str = "n"


class LazyNodes(Sequence):
    """a lazy sequence that builds RNode instances (of the very class being constructed / updated)
    while it is converted: re-entrant use of the library from inside a validation"""

    def __init__(self, n: int, base: int = 100) -> None:
        self.n, self.base = n, base

    def __len__(self) -> int:
        return self.n

    def __getitem__(self, i):
        if not 0 <= i < self.n:
            raise IndexError(i)
        return RNode(name=f"child{i}", weight=self.base + i, note=f"c{i}")


def _reentrant(program) -> Result:
    viols: list[dict] = []
    steps = 0
    n = program["n"]
    eager = lambda k, base=100: [RNode(name=f"child{i}", weight=base + i, note=f"c{i}") for i in range(k)]  # noqa: E731
    try:
        root = RNode(name="root", weight=1, children=LazyNodes(n), note="r")
        want = RNode(name="root", weight=1, children=eager(n), note="r")
        steps += 1
        if snap(root) != snap(want) or not (root == want):
            viols.append(viol("construction", "re-entrant/lazy-children", snap(want), snap(root)))
        before = snap(root)
        for how in ("updated-children", "updated-name+children", "copy", "deepcopy"):
            steps += 1
            if how == "updated-children":
                got, exp = root.updated(children=LazyNodes(n + 1, 200)), RNode(name="root", weight=1, children=eager(n + 1, 200), note="r")
            elif how == "updated-name+children":
                got, exp = root.updated(name="other", children=LazyNodes(1, 300)), RNode(name="other", weight=1, children=eager(1, 300), note="r")
            elif how == "copy":
                got, exp = copy.copy(root), want
            else:
                got, exp = copy.deepcopy(root), want
            if snap(got) != snap(exp) or not (got == exp):
                viols.append(viol("updated" if how.startswith("updated") else how, f"re-entrant/{how}", snap(exp), snap(got)))
            if snap(root) != before:
                viols.append(viol("immutable", f"changed-by/re-entrant-{how}", before, snap(root)))
                break
    except Exception as exc:  # noqa: BLE001
        viols.append(viol("construction", "re-entrant/raises", "an instance", f"{type(exc).__name__}: {exc}"[:160]))
    return Result(f"reentrant/{n}", True, viols[:4], program, steps=steps)


def programs(tier: str):
    for n in (1, 2, 3):
        yield {"family": "reentrant", "n": n}
    L = BOUNDS[tier]["L"]
    for name, (_, builders) in CATALOGUE.items():
        for i in range(len(builders)):
            yield {"family": "history", "cls": name, "inst": i, "L": L}
    names = [(n, i) for n, (_, bs) in CATALOGUE.items() for i in range(len(bs))]
    for a in names:
        yield {"family": "equality", "left": list(a)}


def explore_config(tier: str, program) -> dict:
    return {}


def _equal_but_invalid(v):
    """a value == v whose type an int-ish annotation rejects; None when there is none"""
    if type(v) is int:
        return float(v)
    if type(v) is tuple and v and all(type(e) is int for e in v):
        return tuple(float(e) for e in v)
    if isinstance(v, Mapping) and v and all(type(e) is int for e in v.values()):
        return {k: float(e) for k, e in v.items()}
    return None


def snap(inst) -> dict:
    cls = type(inst)
    out: dict[str, Any] = {}
    for k in cls.__ATTRIBUTES__:
        out[k] = ak.describe(getattr(inst, k, "<<absent>>"))
    try:
        out["__as_dict__"] = ak.describe(inst.as_dict())
    except Exception as exc:  # noqa: BLE001
        out["__as_dict__"] = f"raised {type(exc).__name__}"
    return out


def mutators(args: dict) -> list[tuple[str, Any]]:
    """in-place mutations of the original argument containers (incl. nested ones)"""
    out = []

    def visit(path: str, v) -> None:
        if isinstance(v, list):
            out.append((f"{path}.append", lambda v=v: v.append(99 if not v or not isinstance(v[0], (list, dict)) else type(v[0])())))
            if v:
                out.append((f"{path}.clear", lambda v=v: v.clear()))
            for i, e in enumerate(list(v)):
                visit(f"{path}[{i}]", e)
        elif isinstance(v, set):
            out.append((f"{path}.add", lambda v=v: v.add("zz")))
        elif isinstance(v, dict):
            out.append((f"{path}[new]=", lambda v=v: v.__setitem__("new", 99)))
            if v:
                out.append((f"{path}.clear", lambda v=v: v.clear()))
            for kk, e in list(v.items()):
                visit(f"{path}[{kk!r}]", e)
        elif id(v) in _PROXY_SRC:
            visit(f"{path}.viewed-dict", _PROXY_SRC[id(v)])

    for k, v in args.items():
        visit(k, v)
    return out


def stored_mutators(inst) -> list[tuple[str, Any]]:
    out = []
    for k in type(inst).__ATTRIBUTES__:
        v = getattr(inst, k, None)
        if type(inst).__name__ in ALIASING_ALLOWED and k == "v":
            continue  # Any: stored as given
        if isinstance(v, Mapping):
            out.append((f"stored.{k}[new]=", lambda v=v: v.__setitem__("new", 99)))  # type: ignore[attr-defined]
        elif isinstance(v, (tuple, frozenset)):
            out.append((f"stored.{k}.append/add", lambda v=v: (getattr(v, "append", None) or getattr(v, "add"))(99)))
    return out


def execute(program, ch: Chooser) -> Result:  # noqa: C901, PLR0912, PLR0915
    viols: list[dict] = []
    if program["family"] == "equality":
        return _equality(program)
    if program["family"] == "reentrant":
        return _reentrant(program)
    name, idx, L = program["cls"], program["inst"], program["L"]
    cls, builders = CATALOGUE[name]
    args = builders[idx]()
    try:
        pristine_args = copy.deepcopy(args)
    except Exception:  # noqa: BLE001
        pristine_args = builders[idx]()
    inst = cls(**args)
    twin = cls(**pristine_args)
    for k_, v_ in args.items():
        if isinstance(v_, ak.AlwaysEq) and getattr(inst, k_, None) is not v_:
            return Result(f"{name}/construction", True, [viol("construction", "opaque-value-not-stored", "the object that was supplied", ak.describe(getattr(inst, k_, None)))], {"cls": name})
    base = snap(inst)
    attrs = list(cls.__ATTRIBUTES__)
    rep = REPLACE[name]
    ops: list[tuple[str, Any]] = []
    for a in [*attrs, "unknown_attr"]:
        ops.append((f"setattr {a}", ("set", a)))
        ops.append((f"delattr {a}", ("del", a)))
    for label, fn in mutators(args if name not in ALIASING_ALLOWED else {k: v for k, v in args.items() if k != "v"}):
        ops.append((f"mutate arg {label}", ("call", fn)))
    for label, fn in stored_mutators(inst):
        ops.append((f"mutate {label}", ("call-must-fail", fn)))
    upd_attrs = [a for a in attrs if a in rep][:3]
    for r in range(0, len(upd_attrs) + 1):
        for subset in itertools.combinations(upd_attrs, r):
            ops.append((f"updated {','.join(subset) or '-'}", ("upd", subset, None)))
            ops.append((f"updated {','.join(subset) or '-'}+unknown", ("upd", subset, "unknown")))
            for bad in subset:
                if rep[bad][1] is None:
                    continue  # nothing is invalid for this attribute (Any)
                ops.append((f"updated {','.join(subset)} invalid={bad}", ("upd", subset, ("bad", bad))))
                if len(subset) == 1 and len(rep[bad]) > 2 and rep[bad][2] is not None:
                    # an invalid replacement that is also falsy ('' for an int, 0 for a container)
                    ops.append((f"updated {bad} invalid-falsy", ("upd", subset, ("bad2", bad))))
            if len(subset) == 1 and cls.__ATTRIBUTES__[subset[0]].default is not MISSING or (len(subset) == 1 and name == "MissT"):
                # replacing with MISSING means "not given": the attribute falls back to its default
                ops.append((f"updated {subset[0]}=MISSING", ("upd", subset, ("missing", subset[0]))))
                # ... also when the caller writes Missing() instead of the constant (same object)
                ops.append((f"updated {subset[0]}=Missing()", ("upd", subset, ("missing-call", subset[0]))))
            if len(subset) == 1 and isinstance(rep[subset[0]][1], (list, dict, set)) and type(rep[subset[0]][1]) is type(rep[subset[0]][0]()):
                # an invalid container is rejected, the caller REPAIRS that very object in place
                # and tries again: the second attempt is a valid update like any other
                ops.append((f"updated {subset[0]} invalid-then-repaired", ("upd-repair", subset[0])))
            if len(subset) == 1 and _equal_but_invalid(getattr(inst, subset[0], None)) is not None:
                # a replacement that compares == to the current value but has a type the
                # annotation rejects (1.0 for 1, (1.0, 2.0) for (1, 2) ...) must be re-validated
                ops.append((f"updated {subset[0]} equal-but-invalid", ("upd", subset, ("eqbad", subset[0]))))
    ops.append(("copy", ("copy",)))
    ops.append(("deepcopy", ("deepcopy",)))

    hist: list[str] = []
    touched = False
    steps = 0
    for _ in range(L):
        c = ch.choose(len(ops) + 1, "op")
        if c == 0:
            break
        label, op = ops[c - 1]
        hist.append(label)
        steps += 1
        kind = op[0]
        if kind in ("set", "del"):
            try:
                if kind == "set":
                    setattr(inst, op[1], 123)
                else:
                    delattr(inst, op[1])
                viols.append(viol("mutation-rejected", kind + "attr", "raises", "no error", history=hist))
            except Exception:  # noqa: BLE001
                pass
        elif kind == "call":
            touched = True
            op[1]()
        elif kind == "call-must-fail":
            try:
                op[1]()
                # no exception: acceptable only if the value did not change (checked below)
            except Exception:  # noqa: BLE001
                pass
        elif kind == "upd":
            touched = True
            subset, extra = op[1], op[2]
            kw = {a: rep[a][0]() for a in subset}
            expect_fail = False
            if extra == "unknown":
                kw["unknown_name"] = 1
            elif isinstance(extra, tuple) and extra[0] == "missing":
                kw = {extra[1]: MISSING}
            elif isinstance(extra, tuple) and extra[0] == "missing-call":
                kw = {extra[1]: Missing()}
            elif isinstance(extra, tuple) and extra[0] == "eqbad":
                kw = {extra[1]: _equal_but_invalid(getattr(inst, extra[1]))}
                expect_fail = True
            elif isinstance(extra, tuple):
                kw[extra[1]] = rep[extra[1]][2 if extra[0] == "bad2" else 1]
                expect_fail = True
            try:
                passed = {k_: (v_ if isinstance(v_, ak.AlwaysEq) else copy.deepcopy(v_)) for k_, v_ in kw.items()}
                new = inst.updated(**passed)
                for k_, v_ in kw.items():
                    if isinstance(v_, ak.AlwaysEq) and not expect_fail and getattr(new, k_, None) is not v_:
                        viols.append(viol("updated", "named-attribute-not-replaced", "the object that was supplied", ak.describe(getattr(new, k_, None)), history=hist))
                if expect_fail:
                    viols.append(viol("updated", "invalid-accepted", "raises", ak.describe(new), history=hist))
                else:
                    base_args = {k: getattr(twin, k) for k in attrs if getattr(twin, k, MISSING) is not MISSING}
                    fresh = cls(**{**base_args, **{k: v for k, v in kw.items() if k in attrs}})
                    if not (new == fresh) or snap(new) != snap(fresh) or type(new) is not cls:
                        viols.append(viol("updated", "wrong-copy", snap(fresh), snap(new), history=hist))
                    if new is inst and subset:
                        viols.append(viol("updated", "same-object", "a new instance", "self", history=hist))
                    # the derived copy is detached from the containers that were passed to updated()
                    if name not in ALIASING_ALLOWED and not viols:
                        before = snap(new)
                        for mlabel, fn in mutators({k_: v_ for k_, v_ in passed.items() if k_ in attrs}):
                            fn()
                            if snap(new) != before:
                                viols.append(viol("updated", "copy-aliases-its-argument", before, snap(new), history=[*hist, f"mutate passed {mlabel}"]))
                                break
            except Exception as exc:  # noqa: BLE001
                if not expect_fail:
                    viols.append(viol("updated", "valid-rejected", "an updated copy", f"{type(exc).__name__}: {exc}"[:140], history=hist))
        elif kind == "upd-repair":
            touched = True
            a_ = op[1]
            box = copy.deepcopy(rep[a_][1])
            good = rep[a_][0]()
            try:
                inst.updated(**{a_: box})
                viols.append(viol("updated", "invalid-accepted", "raises", "accepted", history=hist))
            except Exception:  # noqa: BLE001
                box.clear()
                if isinstance(box, list):
                    box.extend(good)
                else:
                    box.update(good)
                try:
                    new = inst.updated(**{a_: box})
                    base_args = {k: getattr(twin, k) for k in attrs if getattr(twin, k, MISSING) is not MISSING}
                    fresh = cls(**{**base_args, a_: rep[a_][0]()})
                    if not (new == fresh) or snap(new) != snap(fresh):
                        viols.append(viol("updated", "wrong-copy/after-repair", snap(fresh), snap(new), history=hist))
                except Exception as exc:  # noqa: BLE001
                    viols.append(viol("updated", "valid-rejected/after-a-rejected-attempt-with-the-same-object", "an updated copy", f"{type(exc).__name__}: {exc}"[:140], history=hist))
        elif kind in ("copy", "deepcopy"):
            try:
                c2 = copy.copy(inst) if kind == "copy" else copy.deepcopy(inst)
                if not (c2 == inst) or not (inst == c2) or snap(c2) != base or type(c2) is not cls:
                    viols.append(viol(kind, "not-equal", base, snap(c2), history=hist))
            except Exception as exc:  # noqa: BLE001
                viols.append(viol(kind, "raises", "an equal instance", f"{type(exc).__name__}: {exc}"[:140], history=hist))
        # the value never changes
        now = snap(inst)
        if now != base:
            viols.append(viol("immutable", f"changed-by/{label.split(' ')[0]}", base, now, history=hist))
            break
        if not (inst == twin) or (inst != twin):
            viols.append(viol("immutable", "not-equal-to-pristine-twin", True, False, history=hist))
            break
        if viols:
            break
    outcome = f"{name}/len={len(hist)}/touched={touched}"
    return Result(outcome, touched, viols[:4], {"cls": name, "inst": idx, "history": hist}, steps=steps)


def _all_instances():
    out = []
    for n, (cls, builders) in CATALOGUE.items():
        for i, b in enumerate(builders):
            out.append(((n, i), cls(**b())))
    return out


def _equality(program) -> Result:
    viols: list[dict] = []
    insts = _all_instances()
    key = tuple(program["left"])
    left = next(v for k, v in insts if k == key)
    lcls, lbuild = CATALOGUE[key[0]]
    steps = 0
    same_class_pairs = 0
    # a second, separately built but equal instance must compare equal
    again = lcls(**lbuild[key[1]]())
    if not (left == again) or (left != again):
        viols.append(viol("equality", "equal-values-not-equal", True, False, left=list(key)))
    if not (left == left) or (left != left):
        viols.append(viol("equality", "not-reflexive", True, False, left=list(key)))
    for rk, right in insts:
        steps += 1
        eq = left == right
        ne = left != right
        rev = right == left
        want = type(left) is type(right) and snap(left) == snap(right)
        if type(left) is type(right):
            same_class_pairs += 1
        if eq is not want:
            viols.append(viol("equality", "wrong", want, eq, left=list(key), right=list(rk)))
        if ne is eq:
            viols.append(viol("equality", "ne-not-negation", not eq, ne, left=list(key), right=list(rk)))
        if rev is not eq:
            viols.append(viol("equality", "not-symmetric", eq, rev, left=list(key), right=list(rk)))
        if eq:
            for tk, third in insts:
                steps += 1
                if (right == third) and not (left == third):
                    viols.append(viol("equality", "not-transitive", True, False, left=list(key), right=list(rk), third=list(tk)))
    for other in (None, 1, "s", MISSING, (), {}):
        steps += 1
        try:
            if left == other or not (left != other):
                viols.append(viol("equality", "equal-to-foreign", False, True, other=repr(other)))
        except Exception as exc:  # noqa: BLE001
            viols.append(viol("equality", "raises-on-foreign", False, f"{type(exc).__name__}", other=repr(other)))
    return Result(f"equality/{key[0]}", same_class_pairs > 0, viols[:4], {"left": list(key)}, steps=steps)
