"""C07  Cancellation is never swallowed by scopes; the cancellation check reports it.

Family "scope": the victim task runs a scope program (nested scopes, suspended disposables,
spawned tasks); exactly one cancellation is injected at every quiescent point from task creation
to completion.  Family "check": every script over {ctx.cancel(), task.cancel(), pause,
ctx.check_cancellation()} up to length 4.
"""

import asyncio
import itertools

from hv import boot  # noqa: F401
from hv.core import Result, viol
from hv.scopeprog import Run
from hv.vloop import VLoop
from hv.world import Chooser

from haiway import ctx  # noqa: E402

ID = "C07"
TECHNIQUE = "exhaustive crash-point enumeration: one cancellation injected at every quiescent point of every schedule of the real scope program (DFS, prefix replay); exhaustive script enumeration for check_cancellation"
RULE = (
    "victim task running 1-2 nested scopes (async / sync / update) with 0-2 disposables "
    "(suspending in enter and/or exit, or raising from exit) and 0-2 spawned tasks (returning, "
    "failing, spawning a grandchild, failing while being cancelled, needing one more suspension to "
    "finish their cancellation), body returning or failing; one cancel(victim) at every "
    "quiescent point of every interleaving (for <= 1 disposable and <= 1 spawned task also together with a second event in the same loop iteration); plus all scripts of length <= 4 over {ctx.cancel, "
    "task.cancel, pause, check}; plus all scripts of length <= 3 in which the victim requests its own cancellation and then enters / runs / leaves nested blocks (failing or not, spawning or not) without catching CancelledError; non-trivial = the cancellation was delivered while the victim "
    "was inside a scope's enter, body or exit"
)
RULE += ' Rounds 10-11: MANY disposables (4-9 (17)) one or two of which suspend, cancellation while the scope waits for them; spawn from other callable forms.'
ASSUMPTIONS = [
    "harness code re-raises CancelledError (user code does not catch it)",
    "spawned tasks and disposables do not swallow cancellation",
]
BOUNDS = {"quick": {"depth": 2, "disposables": 1, "spawns": 1}, "thorough": {"depth": 2, "disposables": 2, "spawns": 2}}
EXHAUSTIVE = {"quick": True, "thorough": True}
SAMPLE_EVERY = {"quick": 1500, "thorough": 60000}

OPS = ["ctx_cancel", "task_cancel", "pause", "ext", "check"]
# pause: suspension point; a pending cancel request is delivered there, the script (user code)
#        catches it and goes on - the task *has been asked* to cancel from then on
# ext:   suspension point during which somebody else calls task.cancel() (delivered at once)

DISP = [
    {"enter": "ok", "exit": "ok", "yields": "none"},
    {"enter": "susp_ok", "exit": "ok", "yields": "one"},
    {"enter": "ok", "exit": "susp_ok", "yields": "none"},
    {"enter": "susp_ok", "exit": "susp_ok", "yields": "none"},
    {"enter": "ok", "exit": "raise", "yields": "none"},
    {"enter": "ok", "exit": "susp_raise", "yields": "none"},
]
SPAWN = [
    {"kind": "ret", "pauses": 1},
    {"kind": "ret", "pauses": 2},
    {"kind": "raise", "pauses": 1},
    {"kind": "grand", "pauses": 1},
    {"kind": "raise_on_cancel", "pauses": 1},
    {"kind": "slow_cancel", "pauses": 1},
    {"kind": "respawn", "pauses": 1},
    {"kind": "queue", "pauses": 0},  # consumer of an AsyncQueue the body feeds in its last step
]


def _blocks(tier: str):
    nd, ns = BOUNDS[tier]["disposables"], BOUNDS[tier]["spawns"]
    disp_sets = [[]]
    for k in range(1, nd + 1):
        disp_sets += [list(c) for c in itertools.combinations_with_replacement(range(1, len(DISP)), k)]
    spawn_sets = [[]]
    for k in range(1, ns + 1):
        spawn_sets += [list(c) for c in itertools.combinations_with_replacement(range(len(SPAWN)), k)]
    for ds in disp_sets:
        for ss in spawn_sets:
            yield {
                "kind": "ascope",
                "supply": ["A"],
                "disp": [dict(DISP[i]) for i in ds],
                "spawns": [dict(SPAWN[i]) for i in ss],
                "pause": True,
                "ending": "return",
            }


def programs(tier: str):
    for L in range(1, 5):
        for script in itertools.product(OPS, repeat=L):
            yield {"family": "check", "script": list(script)}
    # the victim requests its own cancellation (no suspension point since) and goes on entering,
    # running and leaving nested scopes; ordinary errors of a nested scope are handled by the
    # victim's code, cancellation never is
    for L in (1, 2, 3):
        for script in itertools.product(range(len(SELF_STEPS)), repeat=L):
            if 0 not in script:
                continue
            for outer_spawn in (False, True):
                if outer_spawn and L == 3 and tier == "quick":
                    continue
                yield {"family": "self", "script": list(script), "outer_spawn": outer_spawn}
    outer_blocks = list(_blocks(tier))
    for b in outer_blocks:
        yield {"family": "scope", "block": b, "cancels": 1, "outer": False}
        if b["spawns"] and len(b["disp"]) <= 1:
            # the body fails on its own; the cancellation may arrive while the exit is already
            # aborting the spawned tasks
            yield {"family": "scope", "block": dict(b, ending="raise"), "cancels": 1, "outer": False}
    # the cancellation and another event (a disposable or spawned task finishing a step) landing
    # in the same loop iteration
    for b in outer_blocks:
        if len(b["disp"]) <= 1 and len(b["spawns"]) <= 1 and (b["disp"] or b["spawns"]):
            yield {"family": "scope", "block": b, "cancels": 1, "outer": False, "batch": 2}
            if b["spawns"]:
                yield {"family": "scope", "block": dict(b, ending="raise"), "cancels": 1, "outer": False, "batch": 2}
    # a disposable that spawns a task while entering, next to one that is still entering / fails:
    # the roll-back cancels that task too
    for other in ({"enter": "susp_ok", "exit": "ok", "yields": "none"}, {"enter": "susp_raise", "exit": "ok", "yields": "none"}, {"enter": "raise", "exit": "ok", "yields": "none"}, {"enter": "ok", "exit": "susp_ok", "yields": "none"}):
        for first, spawn_kind in ((True, "ret"), (False, "ret"), (True, "slow_cancel"), (False, "slow_cancel")):
            sp = {"enter": "ok", "exit": "ok", "yields": "none", "spawn_in_enter": True, "spawn_kind": spawn_kind}
            disp = [sp, dict(other)] if first else [dict(other), sp]
            yield {"family": "scope", "block": {"kind": "ascope", "supply": ["A"], "disp": disp, "spawns": [], "pause": True, "ending": "return"}, "cancels": 1, "outer": False}
    # the cancellation injected between two iterations of the loop (not only when the loop has
    # gone quiescent): e.g. after exactly one step of an enter / exit that takes several
    for b in outer_blocks:
        if len(b["disp"]) <= 1 and len(b["spawns"]) <= 1:
            yield {"family": "scope", "block": b, "cancels": 1, "outer": False, "fine": True}
            if b["spawns"]:
                yield {"family": "scope", "block": dict(b, ending="raise"), "cancels": 1, "outer": False, "fine": True}
    # MANY disposables (4..9; thorough 13, 17): one or two of them suspend while entering / exiting,
    # the cancellation lands while the scope waits for them (in any "batch" an implementation may
    # form); a blocked spawned task must be cancelled with the victim
    okd = {"enter": "ok", "exit": "ok", "yields": "none"}
    for k in (4, 5, 6, 9) if tier == "quick" else (4, 5, 6, 7, 9, 13, 17):
        for pos in sorted({0, 1, 2, 3, k // 2, k - 2, k - 1}):
            for beh in (("ok", "susp_ok"), ("susp_ok", "ok"), ("ok", "susp_raise"), ("susp_ok", "susp_ok")):
                for with_task in (False, True):
                    disp = [dict(okd) for _ in range(k)]
                    disp[pos] = {"enter": beh[0], "exit": beh[1], "yields": "none"}
                    yield {"family": "scope", "block": {"kind": "ascope", "supply": ["A"], "disp": disp, "spawns": [dict(SPAWN[0])] if with_task else [], "pause": True, "ending": "return"}, "cancels": 1, "outer": False}
        for p1, p2 in ((0, k - 1), (1, k - 2), (3, 4 % k)):
            if p1 == p2:
                continue
            disp = [dict(okd) for _ in range(k)]
            disp[p1] = {"enter": "ok", "exit": "susp_ok", "yields": "none"}
            disp[p2] = {"enter": "ok", "exit": "susp_ok", "yields": "none"}
            yield {"family": "scope", "block": {"kind": "ascope", "supply": ["A"], "disp": disp, "spawns": [dict(SPAWN[0])], "pause": True, "ending": "return"}, "cancels": 1, "outer": False}
    # a spawned task that answers its cancellation with a BaseException which is not an Exception;
    # the scope's logger at DEBUG level (every diagnostic line of the library is actually produced)
    for ending in ("return", "raise"):
        for n_disp in (0, 1):
            disp = [{"enter": "ok", "exit": "susp_ok", "yields": "none"}] if n_disp else []
            yield {"family": "scope", "block": {"kind": "ascope", "supply": ["A"], "disp": disp, "spawns": [{"kind": "raise_base_on_cancel", "pauses": 1}], "pause": True, "ending": ending}, "cancels": 1, "outer": False}
    for b in outer_blocks:
        if len(b["disp"]) <= 1 and len(b["spawns"]) <= 1:
            yield {"family": "scope", "block": b, "cancels": 1, "outer": False, "debug_logging": True}
    # tasks spawned from callables that are not plain coroutine functions (an object with an async
    # __call__, a lambda returning the coroutine, a functools.partial, a haiway timeout wrapper)
    for form in ("object", "lambda", "partial", "wrapped"):
        for kind_ in (SPAWN[0], SPAWN[1] if len(SPAWN) > 1 else SPAWN[0]):
            for ending in ("return", "raise"):
                yield {"family": "scope", "block": {"kind": "ascope", "supply": ["A"], "disp": [], "spawns": [dict(kind_, callable=form)], "pause": True, "ending": ending}, "cancels": 1, "outer": False}
    # nested: an inner block of every kind inside a simple / busy outer scope
    inner_kinds = [
        {"kind": "sscope", "supply": ["A"], "pause": True, "ending": "return"},
        {"kind": "updated", "supply": ["A"], "pause": True, "ending": "return"},
        {"kind": "ascope", "supply": ["A"], "pause": True, "ending": "return", "spawns": [dict(SPAWN[0])]},
        {"kind": "ascope", "supply": ["A"], "pause": False, "ending": "return", "disp": [dict(DISP[3])]},
        {"kind": "ascope", "supply": ["A"], "pause": False, "ending": "raise", "spawns": [dict(SPAWN[0])]},
    ]
    hosts = [b for b in outer_blocks if len(b["disp"]) <= 1 and len(b["spawns"]) <= 1]
    for host in hosts:
        for inner in inner_kinds:
            b = dict(host)
            b["child"] = dict(inner)
            yield {"family": "scope", "block": b, "cancels": 1, "outer": False}
    for inner in inner_kinds[:3]:
        yield {"family": "scope", "block": dict(outer_blocks[0], child=dict(inner)), "cancels": 1, "outer": True}


# steps of the "self" family: 0 = ctx.cancel() on itself; pause; nested block variants
SELF_STEPS = [
    ("cancel",),
    ("pause",),
    ("ascope", "return", False),
    ("ascope", "raise", False),
    ("ascope", "return", True),  # True: the nested scope spawns a task that blocks
    ("ascope", "raise", True),
    ("sscope", "raise", False),
    ("updated", "return", False),
]


def explore_config(tier: str, program) -> dict:
    return {"cap": 400000}


class _InnerErr(Exception):
    pass


def _self_script(program, ch: Chooser) -> Result:  # noqa: C901
    from hv.vloop import Livelock
    from hv.world import World

    w = World(ch)
    viols: list[dict] = []
    steps = [SELF_STEPS[i] for i in program["script"]]
    log: list = []
    workers: list[asyncio.Task] = []
    finished_before: list[asyncio.Task] = []  # ended before the victim asked for its cancellation
    try:

        async def worker(name):
            await w.pause(name, low=True)

        async def victim():
            async with ctx.scope("outer"):
                if program["outer_spawn"]:
                    workers.append(ctx.spawn(worker, "wk-outer"))
                for n, st in enumerate(steps):
                    if st[0] == "cancel":
                        if not log.count("cancel-requested"):
                            finished_before.extend(x for x in workers if x.done())
                        ctx.cancel()
                        log.append("cancel-requested")
                    elif st[0] == "pause":
                        await asyncio.sleep(0)
                        log.append("resumed-after-suspension")
                    else:
                        kind, ending, spawn = st
                        try:
                            if kind == "ascope":
                                async with ctx.scope(f"inner{n}"):
                                    if spawn:
                                        workers.append(ctx.spawn(worker, f"wk{n}"))
                                    if ending == "raise":
                                        raise _InnerErr()
                            elif kind == "sscope":
                                with ctx.scope(f"inner{n}"):
                                    raise _InnerErr()
                            else:
                                with ctx.updated():
                                    pass
                        except _InnerErr:
                            log.append(f"handled-error-of-{kind}{n}")
                for _ in range(2):
                    await asyncio.sleep(0)
                    log.append("keeps-running")
            return "completed"

        t = w.task(victim(), name="victim")
        hang = False
        try:
            w.run()
        except Livelock:
            hang = True
        first_cancel = next(i for i, st_ in enumerate(steps) if st_[0] == "cancel")
        witness = "/".join("+".join(str(x) for x in st_) for st_ in steps[first_cancel:][:3])
        if hang or not t.done():
            viols.append(viol("termination", f"self/{witness}", "victim finishes", "pending", log=log))
        elif not t.cancelled():
            viols.append(
                viol(
                    "not-swallowed",
                    f"self-request-lost/{witness}",
                    "the victim asked for its own cancellation and never catches CancelledError: it ends cancelled",
                    f"ended with {t.exception()!r}" if t.exception() is not None else f"returned {t.result()!r}",
                    log=log,
                    outer_spawn=program["outer_spawn"],
                )
            )
        left = [x.get_name() for x in workers if not x.done()]
        if left and t.done():
            viols.append(viol("children-cancelled", f"self/child-survives/{witness}", "spawned tasks are finished or cancelled when the victim ends", left, log=log))
        if t.done() and t.cancelled():
            not_cancelled = [x.get_name() for x in workers if x.done() and not x.cancelled() and x not in finished_before]
            if not_cancelled:
                viols.append(viol("children-cancelled", f"self/child-awaited/{witness}", "blocked spawned tasks are cancelled, not awaited", not_cancelled, log=log))
        outcome = f"self/cancelled={t.done() and t.cancelled()}/workers={len(workers)}"
        return Result(outcome, len(steps) > 1, viols, {"log": log, "trace": w.trace})
    finally:
        w.close()


def _check_script(program, ch: Chooser) -> Result:
    loop = VLoop()
    loop.open()
    viols: list[dict] = []
    try:
        log: list = []
        pauses: list[asyncio.Future] = []

        async def script():
            requested = False
            undelivered = False  # a request was made and its CancelledError not yet delivered
            me = asyncio.current_task()
            for op in program["script"]:
                if op == "ctx_cancel":
                    ctx.cancel()
                    requested = True
                    undelivered = True
                    log.append("ctx_cancel")
                elif op == "task_cancel":
                    me.cancel()
                    requested = True
                    undelivered = True
                    log.append("task_cancel")
                elif op == "check":
                    try:
                        ctx.check_cancellation()
                        raised = False
                    except asyncio.CancelledError:
                        raised = True
                    log.append(f"check:{'raises' if raised else 'passes'}")
                    if raised != requested:
                        viols.append(
                            viol(
                                "check",
                                "misses-request" if requested else "raises-without-request",
                                "raises" if requested else "passes",
                                "raises" if raised else "passes",
                                script=program["script"],
                            )
                        )
                else:
                    fut = loop.create_future()
                    pauses.append((fut, op))
                    if op == "ext":
                        requested = True
                        undelivered = True
                    try:
                        await fut
                        log.append(op)
                        if undelivered:
                            # every request - also one made after an earlier one was caught - is
                            # delivered at the next suspension point
                            viols.append(
                                viol("not-swallowed", "request-not-delivered", "CancelledError at the next suspension point", "none", script=program["script"], log=list(log))
                            )
                            undelivered = False
                    except asyncio.CancelledError:
                        log.append(f"{op}:cancelled-caught")  # user code catches; request stands
                        if not undelivered:
                            viols.append(viol("check", "spurious-cancellation", "no CancelledError", "raised", script=program["script"]))
                        undelivered = False

        task = loop.create_task(script())
        for _ in range(10):
            loop.run_ready()
            if task.done():
                break
            for f, kind in pauses:
                if not f.done():
                    if kind == "ext":
                        task.cancel()  # external request while the task is suspended
                    else:
                        f.set_result(None)
        if not task.done():
            viols.append(viol("check", "script-hangs", "done", "pending"))
        asked = any(op in ("ctx_cancel", "task_cancel") for op in program["script"])
        outcome = f"check/asked={asked}/cancelled={task.done() and task.cancelled()}"
        return Result(outcome, asked and "check" in program["script"], viols, {"log": log}, steps=len(log))
    finally:
        loop.shutdown()


def execute(program, ch: Chooser) -> Result:  # noqa: C901
    if program.get("debug_logging"):
        import logging as _logging

        root_ = _logging.getLogger()
        old_ = root_.level
        root_.setLevel(_logging.DEBUG)
        try:
            return _execute(program, ch)
        finally:
            root_.setLevel(old_)
    return _execute(program, ch)


def _execute(program, ch: Chooser) -> Result:  # noqa: C901
    if program["family"] == "check":
        return _check_script(program, ch)
    if program["family"] == "self":
        return _self_script(program, ch)
    r = Run(program, ch, cancels=1, batch=program.get("batch", 1), fine=program.get("fine", False))
    viols: list[dict] = []
    waited: list = []

    def on_quiescent() -> None:
        if waited or not r.w.cancelled_at or r.driver is None or r.driver.done():
            return
        if any(d.in_exit or d.in_enter for ds in r.disp.values() for d in ds):
            return  # waiting for a disposable, not for the tasks
        if r.phase[0] not in ("exiting", "entering"):
            return  # (entering: the roll-back of a cancelled enter winds the scope down as well)
        # (a task that has been asked to cancel and is still cleaning up is legitimately awaited)
        blocked = [s["name"] for s in r.all_spawned if s["task"] is not None and not s["task"].done() and s["task"].cancelling() == 0]
        if blocked:
            waited.append(blocked)

    r.w.on_quiescent = on_quiescent
    try:
        r.execute()
        delivered = bool(r.w.cancelled_at)
        phase = r.cancel_phases[0] if r.cancel_phases else None
        obs = {
            "trace": r.w.trace,
            "cancel_phase": list(phase) if phase else None,
            "driver": None if r.driver is None else ("cancelled" if r.driver.cancelled() else ("done" if r.driver.done() else "pending")),
            "tasks": [[s["name"], s["end"]] for s in r.all_spawned],
        }
        if r.hang or not r.driver.done():
            viols.append(viol("termination", "victim-hangs", "victim finishes", obs))
        elif delivered:
            where = f"{phase[0]}-of-b{phase[1]}" if phase else "?"
            if not r.driver.cancelled():
                viols.append(
                    viol(
                        "not-swallowed",
                        f"cancel-lost/{phase[0] if phase else '?'}",
                        "victim ends cancelled",
                        f"victim ended normally (cancel delivered in {where})",
                        trace=r.w.trace,
                    )
                )
            # once the cancellation was delivered the unwinding never sits waiting for the
            # voluntary end of spawned tasks (they are cancelled instead)
            if waited:
                viols.append(
                    viol(
                        "children-cancelled",
                        f"exit-awaits-children-after-cancel/{phase[0] if phase else '?'}",
                        "spawned tasks are cancelled when the victim is cancelled",
                        waited[0],
                        trace=r.w.trace,
                    )
                )
            left = [t["name"] for t in (r.at_driver_done or []) if not t["done"]]
            if left:
                viols.append(
                    viol(
                        "children-cancelled",
                        f"child-survives/{phase[0] if phase else '?'}",
                        "tasks spawned in the scopes are cancelled or finished when the victim ends",
                        left,
                        trace=r.w.trace,
                    )
                )
        outcome = f"scope/{'delivered@' + phase[0] if phase else 'no-cancel'}/{obs['driver']}"
        viols.extend(r.library_errors())
        return Result(outcome, delivered and phase is not None and phase[0] in ("entering", "body", "exiting"), viols[:4], obs)
    finally:
        r.close()
