"""C17  AsyncQueue delivers every element exactly once, in order, then the finish reason.

Choice tree = the operation history itself: at every step the chooser picks "stop" (choice 0) or
one of the enabled operations; after the history the driver drains the queue.  Every history of
length <= L is therefore one execution, each replayed from a fresh queue on a fresh loop.
"""

import asyncio

from hv import boot  # noqa: F401
from hv.core import Result, viol
from hv.vloop import VLoop
from hv.world import Chooser

from haiway.utils.queue import AsyncQueue  # noqa: E402

ID = "C17"
TECHNIQUE = "exhaustive operation-history enumeration on the real AsyncQueue under a hand-stepped loop, list reference model"
RULE = (
    "all operation sequences up to length L over {enqueue 1, enqueue 3 (values repeat pairwise: equal neighbours), enqueue an element that is an exception instance, finish, finish(error), "
    "cancel queue, start receive (if none pending), cancel pending receive, run loop to quiescence, run one loop iteration}, then drain; "
    "non-trivial = the history has a consumer operation and a producer operation and at least one "
    "receive was suspended or cancelled"
)
RULE += " Round 19: backlogs of 129 / 200 / 1000 elements (one call, single calls, constructor; with a parked / cancelled receive)."
RULE += " Round 15: the same histories (L-2) with an earlier event loop of the process still open in which the library was used before."
ASSUMPTIONS = [
    "single consumer (the class excludes concurrent consumers)",
    "loop callbacks run FIFO (asyncio contract); producer operations happen between loop runs",
]
BOUNDS = {"quick": {"L": 6}, "thorough": {"L": 8}}
EXHAUSTIVE = {"quick": True, "thorough": True}
SAMPLE_EVERY = {"quick": 5000, "thorough": 200000}


class QErr(Exception):
    pass


class ElementErr(Exception):
    """an element that happens to be an exception instance (an error record in a results queue);
    instances with the same number compare equal"""

    def __eq__(self, other) -> bool:
        return isinstance(other, ElementErr) and other.args == self.args

    def __hash__(self) -> int:
        return hash(("ElementErr", self.args))


OPS = ["enq1", "enq3", "finish", "finish_err", "cancel", "recv", "cancel_recv", "run", "tick", "enq_exc"]


def programs(tier: str):
    yield {"L": BOUNDS[tier]["L"]}
    # other ways of constructing the queue: explicit `loop=`, initial elements, both
    yield {"L": BOUNDS[tier]["L"] - 1, "loop_kw": True}
    yield {"L": BOUNDS[tier]["L"] - 2, "initial": True}
    yield {"L": BOUNDS[tier]["L"] - 2, "initial": True, "loop_kw": True}
    yield {"L": BOUNDS[tier]["L"] - 2, "prior_loop": True}
    # explicit-state searches run to a fixpoint: operation sequences of EVERY length in which the
    # backlog (accepted, not yet received) never exceeds B elements
    for backlog in (3, 4) if tier == "quick" else (3, 4, 6, 9):
        for exc_elements in (False, True):
            if backlog > 4 and exc_elements:
                continue
            yield {"fix": True, "backlog": backlog, "exc_elements": exc_elements, "none_elements": exc_elements and (backlog == 3 or tier != "quick"), "deadline_s": 3000, "validate": "first" if tier == "quick" else "all"}
    yield {"fix": True, "backlog": 3, "exc_elements": False, "loop_kw": True, "deadline_s": 3000, "validate": "first" if tier == "quick" else "all"}
    yield {"fix": True, "backlog": 4, "exc_elements": False, "initial": True, "loop_kw": True, "deadline_s": 3000, "validate": "first" if tier == "quick" else "all"}
    yield from _deep_programs(tier)
    for n in (129, 200, 1000):
        for how in ("one-call", "single", "initial", "parked", "parked-cancelled"):
            yield {"big": n, "how": how}


def _deep_programs(tier: str):
    yield {"deep": True, "backlog": 40, "exc_elements": False, "deadline_s": 3000, "reps": [5, 17] if tier == "quick" else [5, 17, 40], "suffix": 3 if tier == "quick" else 4}


def explore_config(tier: str, program) -> dict:
    if program.get("fix") or program.get("deep"):
        return {"split_depth": 0}
    return {"split_depth": 3}


class QSys:
    """One queue + single consumer + list reference, driven operation by operation with the oracle
    evaluated online (hv.xstate.fixpoint interface)."""

    def __init__(self, program) -> None:
        self.program = program
        self.B = program["backlog"]
        self.loop = VLoop()
        self.loop.open()
        init_els = [100, 100] if program.get("initial") else []
        self.q: AsyncQueue = AsyncQueue(*init_els, loop=self.loop) if program.get("loop_kw") else AsyncQueue(*init_els)
        self.pending: list = list(init_els)  # accepted, not yet received (reference)
        self.viols: list[dict] = []
        self.nxt = 0
        self.reason: str | None = None
        self.err = QErr("boom")
        self.recv_task: asyncio.Task | None = None
        self.recv_cancel_requested = False
        self.ends = 0
        self.hist: list = []

    def close(self) -> None:
        self.loop.shutdown()

    async def _receive(self):
        return await self.q.__anext__()

    def _value(self):
        v = (self.nxt % 4) // 2  # 0, 0, 1, 1, 0, 0 ... : neighbours compare equal pairwise, finitely many values
        self.nxt += 1
        return v

    def _harvest(self) -> list:
        out: list = []
        t = self.recv_task
        if t is None or not t.done():
            return out
        self.recv_task = None
        was_req, self.recv_cancel_requested = self.recv_cancel_requested, False
        if t.cancelled():
            if was_req:
                out.append("cancelled-by-driver")
                return out
            got: tuple = ("end", "CancelledError", False)
        else:
            exc = t.exception()
            got = ("el", t.result()) if exc is None else ("end", type(exc).__name__, exc is self.err)
        out.append(list(got[:2]))
        if got[0] == "el":
            if not self.pending:
                self.viols.append(viol("delivery", "duplicated", "nothing left to deliver", repr(got[1])[:60], history=list(self.hist)))
            else:
                exp = self.pending.pop(0)
                if not (type(exp) is type(got[1]) and exp == got[1]):
                    kind = "lost" if any(type(p) is type(got[1]) and p == got[1] for p in self.pending) else "reordered"
                    self.viols.append(viol("delivery", kind, repr(exp)[:60], repr(got[1])[:60], history=list(self.hist)))
        else:
            self.ends = min(2, self.ends + 1)
            if self.pending:
                self.viols.append(viol("delivery", "lost", f"{len(self.pending)} buffered element(s) before the end", list(got[:2]), history=list(self.hist)))
            elif self.reason is None:
                self.viols.append(viol("finish-reason", "end-before-finish", "an element or suspension", list(got[:2]), history=list(self.hist)))
            elif got[1] != self.reason or (self.reason == "QErr" and not got[2]):
                self.viols.append(viol("finish-reason", "wrong", self.reason, list(got[:2]), history=list(self.hist)))
        return out

    def enabled(self):
        ops = []
        room = self.B - len(self.pending)
        if room >= 1 or self.reason is not None:
            ops.append("enq1")
        if room >= 3 or self.reason is not None:
            ops.append("enq3")
        if self.program.get("exc_elements") and (room >= 1 or self.reason is not None):
            ops.append("enq_exc")
            if self.program.get("none_elements"):
                ops.append("enq_none")  # None / False as elements (a wrapper might take them for "nothing")
        ops += ["finish", "finish_err", "cancel"]
        if self.recv_task is None:
            ops.append("recv")
        elif not self.recv_task.done() and not self.recv_cancel_requested:
            ops.append("cancel_recv")
        if self.loop._ready:
            ops += ["run", "tick"]
        return ops

    def apply(self, op):  # noqa: C901, PLR0912
        self.hist.append(op)
        hist = list(self.hist)
        viols = self.viols
        obs: list = [op]
        if op in ("enq1", "enq3", "enq_exc", "enq_none"):
            if op == "enq_none":
                els: list = [None if self._value() else False]
            elif op == "enq_exc":
                els = [ElementErr(self._value())]
            else:
                els = [self._value() for _ in range(1 if op == "enq1" else 3)]
            try:
                self.q.enqueue(*els)
                if self.reason is not None:
                    viols.append(viol("enqueue-after-finish", "accepted", "RuntimeError", "accepted", history=hist))
                self.pending.extend(els)
                obs.append("accepted")
            except RuntimeError:
                if self.reason is None:
                    viols.append(viol("enqueue", "rejected-before-finish", "accepted", "RuntimeError", history=hist))
                self.nxt -= len(els)
                obs.append("rejected")
            except Exception as exc:  # noqa: BLE001
                viols.append(viol("enqueue", f"raises-{type(exc).__name__}", "accepted" if self.reason is None else "RuntimeError", repr(exc)[:120], history=hist))
        elif op in ("finish", "finish_err", "cancel"):
            try:
                if op == "finish":
                    self.q.finish()
                elif op == "finish_err":
                    self.q.finish(self.err)
                else:
                    self.q.cancel()
            except Exception as exc:  # noqa: BLE001
                viols.append(viol("finish", f"{op}-raises-{type(exc).__name__}", "no error", repr(exc)[:120], history=hist))
            self.reason = self.reason or {"finish": "StopAsyncIteration", "finish_err": "QErr", "cancel": "CancelledError"}[op]
        elif op == "recv":
            self.recv_task = self.loop.create_task(self._receive())
        elif op == "cancel_recv":
            assert self.recv_task is not None
            self.recv_task.cancel()
            self.recv_cancel_requested = True
        elif op == "tick":
            self.loop.run_iteration()
            obs += self._harvest()
        elif op == "run":
            self.loop.run_ready()
            obs += self._harvest()
        return obs

    def drain(self) -> None:
        """from the current state: let the loop run, finish if not finished, receive until two end
        markers: everything accepted is delivered in order, then the reason, every time"""
        self.hist.append("<drain>")
        self.loop.run_ready()
        self._harvest()
        if self.reason is None:
            self.q.finish()
            self.reason = "StopAsyncIteration"
        self.loop.run_ready()
        self._harvest()
        guard = 0
        while (self.ends < 2 or self.pending) and guard < self.B + 8 and not self.viols:
            guard += 1
            if self.recv_task is None:
                self.recv_task = self.loop.create_task(self._receive())
            self.loop.run_ready()
            self._harvest()
            if self.recv_task is not None:
                self.viols.append(viol("termination", "receive-hangs-after-finish", "done", "pending", history=list(self.hist)))
                return
        if not self.viols and (self.pending or self.ends < 2):
            self.viols.append(viol("finish-reason", "not-sticky", ">= 2 end markers and nothing left", [self.ends, len(self.pending)], history=list(self.hist)))

    def canon(self):
        from hv import xstate

        import haiway.utils.queue as mod

        c = xstate.Canon({})
        return (
            c(self.q),
            c(self.recv_task),
            xstate.loop_state(self.loop, c),
            xstate.module_state(mod, c),
            tuple(repr(p) for p in self.pending),
            self.reason,
            self.nxt % 4,
            self.recv_cancel_requested,
            self.ends,
        )


def execute_fix(program) -> Result:
    from hv import xstate

    def at_state(hist: tuple) -> list:
        s = QSys(program)
        try:
            for h in hist:
                s.apply(h)
            if s.viols:
                return []
            s.drain()
            return list(s.viols)
        finally:
            s.close()

    r = xstate.fixpoint(lambda: QSys(program), max_states=program.get("max_states", 150000), validate_merges=program.get("validate", "all"), at_state=at_state)
    obs = {k: v for k, v in r.items() if k != "violations"}
    return Result("fix/" + ("capped" if r["capped"] else "fixpoint"), r["states"] > 10, r["violations"], obs, steps=r["transitions"] + r["states"], capped=r["capped"], xstates=r["states"], xinfo=obs)


def execute_deep(program) -> Result:
    """warm-up cycles (enqueue / receive / run patterns) repeated n times, then every continuation
    of <= `suffix` operations, each followed by a drain"""
    from hv import xstate

    class Deep(QSys):
        drained = False

        def enabled(self):
            if self.drained:
                return []
            return super().enabled() + ["<drain>"]  # terminal pseudo-operation

        def apply(self, op):
            if op == "<drain>":
                self.drained = True
                self.drain()
                return ["<drain>"]
            return super().apply(op)

    cycles = [
        ["enq1", "recv", "run"],
        ["recv", "enq1", "run"],
        ["enq3", "recv", "run", "recv", "run", "recv", "run"],
        ["enq1", "enq1", "recv", "run", "recv", "run"],
        ["recv", "run", "cancel_recv", "run", "enq1", "recv", "run"],
        ["enq1", "recv", "tick"],
        ["recv", "tick", "enq1", "tick"],
    ]
    r = xstate.deep_probe(lambda: Deep(program), cycles=cycles, reps=tuple(program.get("reps", (5, 17))), suffix=program.get("suffix", 3))
    obs = {k: v for k, v in r.items() if k != "violations"}
    return Result("deep", True, r["violations"], obs, steps=r["operations"])


def _big(program) -> Result:
    """LARGE backlogs (129 / 200 / 1000 elements waiting at once), built by one call, by single
    calls or by the constructor, with a receive parked before / cancelled in between: everything
    is delivered, in order, then the finish reason"""
    n, how = program["big"], program["how"]
    viols: list[dict] = []
    loop = VLoop()
    loop.open()
    try:
        want = list(range(n))
        if how == "initial":
            q = AsyncQueue(*want)
        else:
            q = AsyncQueue()
        got: list = []

        async def take():
            return await q.__anext__()

        pending = None
        if how in ("parked", "parked-cancelled"):
            pending = loop.create_task(take())
            loop.run_ready()
        if how == "one-call":
            q.enqueue(*want)
        elif how != "initial":
            for x in want:
                q.enqueue(x)
        if how == "parked-cancelled":
            pending.cancel()
            loop.run_ready()
        elif pending is not None:
            loop.run_ready()
            got.append(pending.result())
        q.finish()
        end = None
        for _ in range(n + 3):
            t = loop.create_task(take())
            loop.run_ready()
            if not t.done():
                viols.append(viol("termination", f"big/{how}/receive-hangs", "every receive ends", len(got)))
                t.cancel()
                loop.run_ready()
                break
            if t.cancelled() or t.exception() is not None:
                end = "cancelled" if t.cancelled() else type(t.exception()).__name__
                break
            got.append(t.result())
        if not viols and got != want:
            first = next((i for i in range(min(len(got), n)) if got[i] != want[i]), min(len(got), n))
            viols.append(viol("delivery", f"big/{how}/lost-or-reordered", {"count": n, "at": first, "want": want[first : first + 3]}, {"count": len(got), "got": got[first : first + 3]}))
        if not viols and end != "StopAsyncIteration":
            viols.append(viol("finish-reason", f"big/{how}/wrong", "StopAsyncIteration", end))
        return Result(f"big/{how}", True, viols, {"n": n, "how": how, "received": len(got)}, steps=2 * n)
    finally:
        loop.shutdown()


def execute(program, ch: Chooser) -> Result:  # noqa: C901, PLR0912, PLR0915
    if program.get("big"):
        return _big(program)
    if program.get("deep"):
        return execute_deep(program)
    if program.get("fix"):
        return execute_fix(program)
    L = program["L"]
    prior = None
    if program.get("prior_loop"):
        # an earlier event loop of this process that is still open (not running: e.g. a worker
        # thread's loop between two runs) and in which the library was used already
        from asyncio import events as _events

        prior = VLoop()
        prior.open()
        AsyncQueue().enqueue(1)
        _events._set_running_loop(None)
    loop = VLoop()
    loop.open()
    try:
        init_els = [100, 100] if program.get("initial") else []
        q: AsyncQueue[int] = AsyncQueue(*init_els, loop=loop) if program.get("loop_kw") else AsyncQueue(*init_els)
        accepted: list[int] = list(init_els)
        received: list = []  # ints, or ("end", type-name)
        hist: list[str] = []
        viols: list[dict] = []
        nxt = 0
        reason: str | None = None  # expected finish reason type
        err = QErr("boom")
        recv_task: asyncio.Task | None = None
        cancelled_recv = 0
        suspended_recv = 0
        recv_cancel_requested = False

        async def receive():
            return await q.__anext__()

        def harvest() -> None:
            nonlocal recv_task, recv_cancel_requested
            if recv_task is not None and recv_task.done():
                t, recv_task = recv_task, None
                was_req, recv_cancel_requested = recv_cancel_requested, False
                if t.cancelled():
                    if was_req:
                        received.append(("cancelled-by-driver",))
                    else:
                        received.append(("end", "CancelledError"))
                else:
                    exc = t.exception()
                    if exc is None:
                        received.append(t.result())
                    else:
                        received.append(("end", type(exc).__name__, exc is err))

        def run() -> None:
            loop.run_ready()
            harvest()

        for _ in range(L):
            enabled = ["enq1", "enq3", "finish", "finish_err", "cancel", "enq_exc"]
            if recv_task is None:
                enabled.append("recv")
            elif not recv_task.done() and not recv_cancel_requested:
                enabled.append("cancel_recv")
            if loop._ready:
                enabled.append("run")
                enabled.append("tick")  # exactly one loop iteration
            c = ch.choose(len(enabled) + 1, "op")
            if c == 0:
                break
            op = enabled[c - 1]
            hist.append(op)
            if op in ("enq1", "enq3", "enq_exc"):
                # element values repeat pairwise (0, 0, 1, 1, ...): consecutive elements may compare
                # equal; "enq_exc" enqueues an element that is itself an exception instance
                els = [nxt // 2] if op == "enq1" else ([nxt // 2, (nxt + 1) // 2, (nxt + 2) // 2] if op == "enq3" else [ElementErr(nxt // 2)])
                nxt += len(els)
                try:
                    q.enqueue(*els)
                    if reason is not None:
                        viols.append(
                            viol("enqueue-after-finish", "accepted", "RuntimeError", "accepted")
                        )
                    accepted.extend(els)
                except RuntimeError:
                    if reason is None:
                        viols.append(
                            viol("enqueue", "rejected-before-finish", "accepted", "RuntimeError")
                        )
                except Exception as exc:  # noqa: BLE001
                    viols.append(
                        viol("enqueue", f"raises-{type(exc).__name__}", "accepted" if reason is None else "RuntimeError", repr(exc)[:120], history=list(hist))
                    )
            elif op in ("finish", "finish_err", "cancel"):
                try:
                    if op == "finish":
                        q.finish()
                    elif op == "finish_err":
                        q.finish(err)
                    else:
                        q.cancel()
                except Exception as exc:  # noqa: BLE001
                    viols.append(viol("finish", f"{op}-raises-{type(exc).__name__}", "no error", repr(exc)[:120], history=list(hist)))
                reason = reason or {"finish": "StopAsyncIteration", "finish_err": "QErr", "cancel": "CancelledError"}[op]
            elif op == "recv":
                recv_task = loop.create_task(receive())
            elif op == "cancel_recv":
                assert recv_task is not None
                recv_task.cancel()
                recv_cancel_requested = True
                cancelled_recv += 1
            elif op == "tick":
                loop.run_iteration()
                harvest()
            elif op == "run":
                if recv_task is not None and not recv_task.done():
                    pass
                run()
                if recv_task is not None and not recv_task.done():
                    suspended_recv += 1

        # ---- drain ----
        run()
        if reason is None:
            q.finish()
            reason = "StopAsyncIteration"
        run()
        if recv_task is not None:
            viols.append(viol("termination", "receive-hangs-after-finish", "done", "pending"))
            recv_task.cancel()
            run()
        ends = sum(1 for r in received if isinstance(r, tuple) and r[0] == "end")
        guard = 0
        while ends < 2 and guard < len(accepted) + 6:
            guard += 1
            recv_task = loop.create_task(receive())
            run()
            if recv_task is not None:
                viols.append(viol("termination", "receive-hangs-after-finish", "done", "pending"))
                recv_task.cancel()
                run()
                break
            ends = sum(1 for r in received if isinstance(r, tuple) and r[0] == "end")

        # ---- oracle: list reference ----
        got = [r for r in received if not isinstance(r, tuple)]
        if got != accepted:
            kind = (
                "lost"
                if len(got) < len(accepted) and all(g in accepted for g in got)
                else ("duplicated" if len(got) > len(accepted) else "reordered")
            )
            viols.append(viol("delivery", kind, accepted, got, history=hist))
        # after the first end marker only end markers may follow, all of the expected reason
        seen_end = False
        for r in received:
            if isinstance(r, tuple) and r[0] == "end":
                seen_end = True
                if r[1] != reason or (reason == "QErr" and not r[2]):
                    viols.append(viol("finish-reason", "wrong", reason, list(r), history=hist))
            elif isinstance(r, tuple):
                continue
            elif seen_end:
                viols.append(viol("finish-reason", "element-after-end", "end", r, history=hist))
        if ends < 2 and not any(v["clause"] == "termination" for v in viols):
            viols.append(viol("finish-reason", "not-sticky", ">=2 end markers", ends, history=hist))
        producer = any(o in ("enq1", "enq3", "enq_exc", "finish", "finish_err", "cancel") for o in hist)
        consumer = any(o in ("recv",) for o in hist)
        nontrivial = producer and consumer and (suspended_recv > 0 or cancelled_recv > 0)
        outcome = f"{reason}/n={min(len(accepted), 3)}/cancelled={min(cancelled_recv, 2)}/susp={min(suspended_recv, 2)}"
        return Result(outcome, nontrivial, viols, {"history": hist, "received": received})
    finally:
        loop.shutdown()
        if prior is not None:
            prior.shutdown()
