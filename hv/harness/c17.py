"""C17  AsyncQueue delivers every element exactly once, in order, then the finish reason.

Choice tree = the operation history itself: at every step the chooser picks "stop" (choice 0) or
one of the enabled operations; after the history the driver drains the queue.  Every history of
length <= L is therefore one execution, each replayed from a fresh queue on a fresh loop.
"""

import asyncio

from hv import boot  # noqa: F401
from hv.core import Result, viol
from hv.vloop import VLoop
from hv.world import Chooser

from haiway.utils.queue import AsyncQueue  # noqa: E402

ID = "C17"
TECHNIQUE = "exhaustive operation-history enumeration on the real AsyncQueue under a hand-stepped loop, list reference model"
RULE = (
    "all operation sequences up to length L over {enqueue 1, enqueue 3 (values repeat pairwise: equal neighbours), enqueue an element that is an exception instance, finish, finish(error), "
    "cancel queue, start receive (if none pending), cancel pending receive, run loop to quiescence, run one loop iteration}, then drain; "
    "non-trivial = the history has a consumer operation and a producer operation and at least one "
    "receive was suspended or cancelled"
)
ASSUMPTIONS = [
    "single consumer (the class excludes concurrent consumers)",
    "loop callbacks run FIFO (asyncio contract); producer operations happen between loop runs",
]
BOUNDS = {"quick": {"L": 6}, "thorough": {"L": 8}}
EXHAUSTIVE = {"quick": True, "thorough": True}
SAMPLE_EVERY = {"quick": 5000, "thorough": 200000}


class QErr(Exception):
    pass


class ElementErr(Exception):
    """an element that happens to be an exception instance (an error record in a results queue);
    instances with the same number compare equal"""

    def __eq__(self, other) -> bool:
        return isinstance(other, ElementErr) and other.args == self.args

    def __hash__(self) -> int:
        return hash(("ElementErr", self.args))


OPS = ["enq1", "enq3", "finish", "finish_err", "cancel", "recv", "cancel_recv", "run", "tick", "enq_exc"]


def programs(tier: str):
    yield {"L": BOUNDS[tier]["L"]}


def explore_config(tier: str, program) -> dict:
    return {"split_depth": 3}


def execute(program, ch: Chooser) -> Result:  # noqa: C901, PLR0912, PLR0915
    L = program["L"]
    loop = VLoop()
    loop.open()
    try:
        q: AsyncQueue[int] = AsyncQueue()
        accepted: list[int] = []
        received: list = []  # ints, or ("end", type-name)
        hist: list[str] = []
        viols: list[dict] = []
        nxt = 0
        reason: str | None = None  # expected finish reason type
        err = QErr("boom")
        recv_task: asyncio.Task | None = None
        cancelled_recv = 0
        suspended_recv = 0
        recv_cancel_requested = False

        async def receive():
            return await q.__anext__()

        def harvest() -> None:
            nonlocal recv_task, recv_cancel_requested
            if recv_task is not None and recv_task.done():
                t, recv_task = recv_task, None
                was_req, recv_cancel_requested = recv_cancel_requested, False
                if t.cancelled():
                    if was_req:
                        received.append(("cancelled-by-driver",))
                    else:
                        received.append(("end", "CancelledError"))
                else:
                    exc = t.exception()
                    if exc is None:
                        received.append(t.result())
                    else:
                        received.append(("end", type(exc).__name__, exc is err))

        def run() -> None:
            loop.run_ready()
            harvest()

        for _ in range(L):
            enabled = ["enq1", "enq3", "finish", "finish_err", "cancel", "enq_exc"]
            if recv_task is None:
                enabled.append("recv")
            elif not recv_task.done() and not recv_cancel_requested:
                enabled.append("cancel_recv")
            if loop._ready:
                enabled.append("run")
                enabled.append("tick")  # exactly one loop iteration
            c = ch.choose(len(enabled) + 1, "op")
            if c == 0:
                break
            op = enabled[c - 1]
            hist.append(op)
            if op in ("enq1", "enq3", "enq_exc"):
                # element values repeat pairwise (0, 0, 1, 1, ...): consecutive elements may compare
                # equal; "enq_exc" enqueues an element that is itself an exception instance
                els = [nxt // 2] if op == "enq1" else ([nxt // 2, (nxt + 1) // 2, (nxt + 2) // 2] if op == "enq3" else [ElementErr(nxt // 2)])
                nxt += len(els)
                try:
                    q.enqueue(*els)
                    if reason is not None:
                        viols.append(
                            viol("enqueue-after-finish", "accepted", "RuntimeError", "accepted")
                        )
                    accepted.extend(els)
                except RuntimeError:
                    if reason is None:
                        viols.append(
                            viol("enqueue", "rejected-before-finish", "accepted", "RuntimeError")
                        )
                except Exception as exc:  # noqa: BLE001
                    viols.append(
                        viol("enqueue", f"raises-{type(exc).__name__}", "accepted" if reason is None else "RuntimeError", repr(exc)[:120], history=list(hist))
                    )
            elif op in ("finish", "finish_err", "cancel"):
                try:
                    if op == "finish":
                        q.finish()
                    elif op == "finish_err":
                        q.finish(err)
                    else:
                        q.cancel()
                except Exception as exc:  # noqa: BLE001
                    viols.append(viol("finish", f"{op}-raises-{type(exc).__name__}", "no error", repr(exc)[:120], history=list(hist)))
                reason = reason or {"finish": "StopAsyncIteration", "finish_err": "QErr", "cancel": "CancelledError"}[op]
            elif op == "recv":
                recv_task = loop.create_task(receive())
            elif op == "cancel_recv":
                assert recv_task is not None
                recv_task.cancel()
                recv_cancel_requested = True
                cancelled_recv += 1
            elif op == "tick":
                loop.run_iteration()
                harvest()
            elif op == "run":
                if recv_task is not None and not recv_task.done():
                    pass
                run()
                if recv_task is not None and not recv_task.done():
                    suspended_recv += 1

        # ---- drain ----
        run()
        if reason is None:
            q.finish()
            reason = "StopAsyncIteration"
        run()
        if recv_task is not None:
            viols.append(viol("termination", "receive-hangs-after-finish", "done", "pending"))
            recv_task.cancel()
            run()
        ends = sum(1 for r in received if isinstance(r, tuple) and r[0] == "end")
        guard = 0
        while ends < 2 and guard < len(accepted) + 6:
            guard += 1
            recv_task = loop.create_task(receive())
            run()
            if recv_task is not None:
                viols.append(viol("termination", "receive-hangs-after-finish", "done", "pending"))
                recv_task.cancel()
                run()
                break
            ends = sum(1 for r in received if isinstance(r, tuple) and r[0] == "end")

        # ---- oracle: list reference ----
        got = [r for r in received if not isinstance(r, tuple)]
        if got != accepted:
            kind = (
                "lost"
                if len(got) < len(accepted) and all(g in accepted for g in got)
                else ("duplicated" if len(got) > len(accepted) else "reordered")
            )
            viols.append(viol("delivery", kind, accepted, got, history=hist))
        # after the first end marker only end markers may follow, all of the expected reason
        seen_end = False
        for r in received:
            if isinstance(r, tuple) and r[0] == "end":
                seen_end = True
                if r[1] != reason or (reason == "QErr" and not r[2]):
                    viols.append(viol("finish-reason", "wrong", reason, list(r), history=hist))
            elif isinstance(r, tuple):
                continue
            elif seen_end:
                viols.append(viol("finish-reason", "element-after-end", "end", r, history=hist))
        if ends < 2 and not any(v["clause"] == "termination" for v in viols):
            viols.append(viol("finish-reason", "not-sticky", ">=2 end markers", ends, history=hist))
        producer = any(o in ("enq1", "enq3", "enq_exc", "finish", "finish_err", "cancel") for o in hist)
        consumer = any(o in ("recv",) for o in hist)
        nontrivial = producer and consumer and (suspended_recv > 0 or cancelled_recv > 0)
        outcome = f"{reason}/n={min(len(accepted), 3)}/cancelled={min(cancelled_recv, 2)}/susp={min(suspended_recv, 2)}"
        return Result(outcome, nontrivial, viols, {"history": hist, "received": received})
    finally:
        loop.shutdown()
