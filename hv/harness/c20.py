"""C20  MISSING is a process-wide singleton under every way of obtaining it.

Complete enumeration of (container shape up to depth 3) x (obtainer) plus the predicate /
look-alike matrix and the attribute-access table.
"""

import copy
import pickle

from hv import boot  # noqa: F401
from hv.core import Result, viol
from hv.world import Chooser

from collections.abc import Mapping, Sequence  # noqa: E402
from typing import Any  # noqa: E402

from haiway import MISSING, Missing, State, is_missing, not_missing, when_missing  # noqa: E402

ID = "C20"
TECHNIQUE = "exhaustive enumeration of container shapes (depth<=3) x obtainers (call, copy, deepcopy, pickle 0-5) and of the predicate x look-alike matrix on the real Missing type"
RULE = (
    "all shapes of depth <= 3 over {list, tuple, dict value, State attribute (Any / inside a Mapping attribute / inside a Sequence attribute)} holding MISSING x "
    "{Missing(), copy, deepcopy, pickle protocols 0..5}; predicates is_missing / not_missing / "
    "when_missing / bool / == / != over {MISSING, None, False, 0, '', (), [], {}, always-equal "
    "object, forged second instance, the class}; the same look-alikes stored through an attribute first, then instances leaving that attribute out (new / copy / deepcopy / updated), next to a subclass overriding the default; attribute get/set/del; non-trivial = nested "
    "shape, or a look-alike argument"
)
RULE += ' Round 19: attribute access rejected for 31 names incl. the protocol probes of abc / inspect / display hooks.'
RULE += ' Round 16: every obtainer again after two calls of the type that ended with an error (positional / keyword argument).'
RULE += ' Rounds 10-11: DEEP chains of 4-8 (12) containers under one state attribute; attributes whose annotation admits MISSING with another default, given an explicit MISSING.'
ASSUMPTIONS = [
    "a round trip that raises for reasons unrelated to Missing (pickling a State instance) "
    "yields no value and is counted as skipped",
]
BOUNDS = {"quick": {"depth": 3}, "thorough": {"depth": 4}}
EXHAUSTIVE = {"quick": True, "thorough": True}
SAMPLE_EVERY = {"quick": 150, "thorough": 900}


class Holder(State):
    v: Any | Missing = MISSING
    n: int = 0


class HolderSub(Holder):
    """re-declares the attribute with the same annotation and another default: the base class'
    default (MISSING) must stay what it was"""

    v: Any | Missing = 10


class MapHolder(State):
    m: Mapping[str, Any]
    n: int = 0


class SeqHolder(State):
    s: Sequence[Any]
    n: int = 0


class MapOrMissing(State):
    """mapping alternative first, Missing second (like haiway's own ArgumentsTrace.kwargs)"""

    kw: Mapping[str, Any] | Missing = MISSING
    n: int = 0


class Two(State):
    first: Any | Missing = MISSING
    second: Any | Missing = MISSING
    third: int | Missing = MISSING
    fourth: int | None | Missing = MISSING  # None listed before Missing
    fifth: Sequence[str | None | Missing] = ()


CONTAINERS = ("list", "tuple", "dict", "state", "mstate", "qstate", "mlast", "two", "mapmiss")


def walk(value, path=()):
    """every (path, leaf) of a nested value: lists, tuples, mappings, State attributes"""
    if isinstance(value, State):
        for name in type(value).__ATTRIBUTES__:
            yield from walk(getattr(value, name), (*path, f".{name}"))
    elif isinstance(value, Mapping):
        for k_, v_ in value.items():
            yield from walk(v_, (*path, f"[{k_!r}]"))
    elif isinstance(value, (list, tuple)):
        for i_, v_ in enumerate(value):
            yield from walk(v_, (*path, f"[{i_}]"))
    else:
        yield path, value


class AlwaysEq:
    def __eq__(self, other) -> bool:
        return True

    def __ne__(self, other) -> bool:
        return False

    def __hash__(self) -> int:
        return 1


def shapes(depth: int):
    """Shape terms: 'M' | ['list', s] | ['tuple', s] | ['dict', s] | ['state', s]"""
    if depth == 0:
        yield "M"
        return
    yield from shapes(depth - 1)
    for inner in _exact(depth - 1):
        for c in CONTAINERS:
            yield [c, inner]


def _exact(depth: int):
    if depth == 0:
        yield "M"
        return
    for inner in _exact(depth - 1):
        for c in CONTAINERS:
            yield [c, inner]


def build(shape):
    if shape == "M":
        return MISSING
    c, inner = shape
    x = build(inner)
    if c == "list":
        return [x, 1]
    if c == "tuple":
        return (x, 1)
    if c == "dict":
        return {"k": x, "o": 1}
    if c == "mstate":
        return MapHolder(m={"k": x, "o": 1}, n=1)
    if c == "mlast":  # the value sits in the LAST item of the mapping
        return MapHolder(m={"o": 1, "k": x}, n=1)
    if c == "two":  # followed by further attributes that hold MISSING themselves
        return Two(first=x)
    if c == "mapmiss":  # x next to an attribute of type Mapping | Missing left out
        return [x, MapOrMissing(n=1)]
    if c == "qstate":
        return SeqHolder(s=[x, 1], n=1)
    return Holder(v=x, n=1)


def leaf(shape, value):
    """Follow the shape down to where MISSING was put."""
    while shape != "M":
        c, shape = shape
        if c in ("list", "tuple"):
            value = value[0]
        elif c == "dict":
            value = value["k"]
        elif c in ("mstate", "mlast"):
            value = value.m["k"]
        elif c == "two":
            value = value.first
        elif c == "mapmiss":
            value = value[0]
        elif c == "qstate":
            value = value.s[0]
        else:
            value = value.v
    return value


def has_state(shape) -> bool:
    while shape != "M":
        if shape[0] in ("state", "mstate", "qstate", "mlast", "two", "mapmiss"):
            return True
        shape = shape[1]
    return False


OBTAINERS = (
    ["call", "copy", "deepcopy"]
    + [f"pickle{p}" for p in range(0, pickle.HIGHEST_PROTOCOL + 1)]
    # a Pickler that carries its own (empty) dispatch table instead of copyreg's global one
    + [f"pickler-own-table{p}" for p in (0, 2, pickle.HIGHEST_PROTOCOL)]
)

LOOKALIKES = ["MISSING", "None", "False", "0", "empty-str", "empty-tuple", "empty-list", "empty-dict", "always-eq", "forged", "class", "str-MISSING"]


def lookalike(name: str):
    return {
        "MISSING": MISSING,
        "None": None,
        "False": False,
        "0": 0,
        "empty-str": "",
        "empty-tuple": (),
        "empty-list": [],
        "empty-dict": {},
        "always-eq": AlwaysEq(),
        "forged": object.__new__(Missing),
        "class": Missing,
        "str-MISSING": "MISSING",
    }[name]


class DefM(State):
    """attributes whose annotation admits MISSING while their default is something else"""

    retries: int | Missing = 3
    label: str | Missing = "dflt"
    tail: Any | Missing = MISSING
    n: int = 0


def deep_shapes(tier: str):
    """DEEP chains: 4..8 (12) containers under one state attribute (tuples, dicts, lists, mixed),
    also under validated Sequence / Mapping attributes and two states deep"""
    pats = (("tuple",), ("dict",), ("list",), ("tuple", "dict"), ("dict", "tuple", "list"))
    for d in (4, 5, 6, 8) if tier == "quick" else (4, 5, 6, 7, 8, 12):
        for pat in pats:
            for top in ("state", "qstate", "mstate", "two"):
                sh = "M"
                for lvl in reversed(range(d)):
                    sh = [pat[lvl % len(pat)], sh]
                yield [top, sh]
                if top == "state" and d <= 5:
                    yield ["state", ["tuple", ["state", sh]]]


def programs(tier: str):
    for s in deep_shapes(tier):
        for o in ("copy", "deepcopy"):
            yield {"family": "obtain", "shape": s, "how": o}
    for given in ("retries", "label", "tail", "retries+label"):
        for how in ("copy", "deepcopy", "updated", "nested-copy", "nested-deepcopy"):
            yield {"family": "defaulted", "given": given, "how": how}
    for s in shapes(BOUNDS[tier]["depth"]):
        for o in OBTAINERS:
            if o == "call" and s != "M":
                continue
            yield {"family": "obtain", "shape": s, "how": o}
    for failed in ("arg", "kwarg"):
        for s in [sh for sh in shapes(BOUNDS[tier]["depth"]) if sh == "M" or not has_state(sh)][:6]:
            for o in OBTAINERS:
                if o == "call" and s != "M":
                    continue
                yield {"family": "obtain", "shape": s, "how": o, "after_failed": failed}
    for name in LOOKALIKES:
        yield {"family": "predicates", "value": name}
    # a look-alike value went through the same attribute before: the next instance that leaves
    # the attribute out (new, copied, deep-copied, updated) still holds the one MISSING
    for name in LOOKALIKES:
        if name != "MISSING":
            yield {"family": "after", "value": name}
    yield {"family": "attributes"}


def explore_config(tier: str, program) -> dict:
    return {}


def execute(program, ch: Chooser) -> Result:  # noqa: C901, PLR0912, PLR0915
    viols: list[dict] = []
    fam = program["family"]
    steps = 1
    if fam == "obtain":
        shape, how = program["shape"], program["how"]
        original = build(shape)
        skipped = False
        result = None
        if program.get("after_failed"):
            # an earlier attempt to obtain a missing value ENDED WITH AN ERROR (the type takes no
            # arguments): whatever is obtained afterwards is still the one MISSING object
            for _ in range(2):
                try:
                    Missing("n/a") if program["after_failed"] == "arg" else Missing(value=None)  # type: ignore[call-arg]
                except Exception:  # noqa: BLE001, S110
                    pass
        try:
            if how == "call":
                result = Missing()
            elif how == "copy":
                result = copy.copy(original)
            elif how == "deepcopy":
                result = copy.deepcopy(original)
            elif how.startswith("pickler-own-table"):
                import io

                buf = io.BytesIO()
                pk = pickle.Pickler(buf, protocol=int(how[17:]))
                pk.dispatch_table = {}
                pk.dump(original)
                result = pickle.loads(buf.getvalue())  # nosec
            else:
                result = pickle.loads(pickle.dumps(original, protocol=int(how[6:])))  # nosec
        except Exception as exc:  # noqa: BLE001
            if how.startswith("pickle") and has_state(shape):  # (also "pickler-own-table")
                skipped = True  # State instances cannot be pickled at all (unrelated to Missing)
            else:
                viols.append(viol("obtain", f"{how}-raises", "a value", f"{type(exc).__name__}: {exc}"[:160]))
                skipped = True
        if not skipped:
            got = None
            try:
                got = leaf(shape, result)
            except Exception as exc:  # noqa: BLE001
                viols.append(viol("obtain", f"{how}-shape-changed", "same shape", repr(exc)[:100]))
            else:
                # every position that held MISSING in the original holds MISSING in the result
                if how != "call":
                    before = {p: v for p, v in walk(original)}
                    after = dict(walk(result))
                    lost = [("".join(p), type(after.get(p)).__name__) for p, v in before.items() if v is MISSING and after.get(p, "absent") is not MISSING]
                    if lost and got is MISSING:
                        viols.append(viol("singleton", f"{how}/other-position", "MISSING wherever the original holds it", lost[:3]))
                if got is not MISSING:
                    viols.append(
                        viol(
                            "singleton",
                            f"{how}/{'nested' if shape != 'M' else 'bare'}{'/state' if has_state(shape) else ''}",
                            "the one MISSING object",
                            f"{type(got).__name__} instance, is MISSING: {got is MISSING}",
                        )
                    )
                # a copied state still omits the missing attribute from as_dict()
                if shape != "M" and shape[0] == "state" and shape[1] == "M":
                    try:
                        d = result.as_dict()
                        if "v" in d:
                            viols.append(viol("as-dict", how, "missing attribute omitted", "present"))
                    except Exception as exc:  # noqa: BLE001
                        viols.append(viol("as-dict", f"{how}-raises", "dict", repr(exc)[:100]))
        outcome = f"obtain/{how}/{'skipped' if skipped else 'value'}"
        return Result(outcome, shape != "M", viols, {"shape": shape, "how": how, "skipped": skipped}, steps=2)
    if fam == "defaulted":
        # an explicit MISSING for an attribute whose default is not MISSING: whatever the instance
        # holds (the default, or MISSING), every way of copying it yields the same - and the one
        # MISSING object wherever the original holds it
        given, how = program["given"], program["how"]
        kw = {k_: MISSING for k_ in given.split("+")}
        try:
            orig = DefM(n=1, **kw)
            box = Holder(v=orig, n=2)
            if how == "copy":
                res = copy.copy(orig)
            elif how == "deepcopy":
                res = copy.deepcopy(orig)
            elif how == "updated":
                res = orig.updated(n=1)
            elif how == "nested-copy":
                res = copy.copy(box).v
            else:
                res = copy.deepcopy(box).v
        except Exception as exc:  # noqa: BLE001
            viols.append(viol("obtain", f"defaulted/{how}-raises", "an instance", f"{type(exc).__name__}: {exc}"[:120]))
            return Result(f"defaulted/{how}/raises", True, viols, program, steps=2)
        for attr in ("retries", "label", "tail"):
            a, b = getattr(orig, attr), getattr(res, attr)
            if (a is MISSING) != (b is MISSING) or (a is not MISSING and a != b):
                viols.append(viol("singleton", f"defaulted/{how}/{attr}", f"{'the one MISSING object' if a is MISSING else repr(a)} (as in the original)", repr(b)[:60], given=given))
        if orig.tail is not MISSING:
            viols.append(viol("singleton", "defaulted/left-out", "the one MISSING object", repr(orig.tail)[:60]))
        return Result(f"defaulted/{how}/{given}", True, viols, program, steps=4)
    if fam == "after":
        name = program["value"]
        x = lookalike(name)
        try:
            first = Holder(v=x, n=1)
            stored = "stored-as-given" if first.v is x else "stored-other"
        except Exception as exc:  # noqa: BLE001
            stored = f"rejected {type(exc).__name__}"
        sub_default = HolderSub().v
        if sub_default != 10:
            viols.append(viol("singleton", "subclass-default", 10, repr(sub_default)))
        for how, make in (
            ("new", lambda: Holder(n=2)),
            ("new-explicit", lambda: Holder(v=MISSING, n=2)),
            ("copy", lambda: copy.copy(Holder(n=2))),
            ("deepcopy", lambda: copy.deepcopy(Holder(n=2))),
            ("updated", lambda: Holder(n=2).updated(n=3)),
            ("nested-deepcopy", lambda: copy.deepcopy(Holder(v=Holder(n=4), n=2)).v),
            # an attribute typed `Mapping | Missing` (mapping first) that is left out / given MISSING
            ("mapping-or-missing/new", lambda: Holder(v=MapOrMissing(n=2).kw)),
            ("mapping-or-missing/explicit", lambda: Holder(v=MapOrMissing(kw=MISSING).kw)),
            ("mapping-or-missing/copy", lambda: Holder(v=copy.copy(MapOrMissing(n=2)).kw)),
            ("mapping-or-missing/updated", lambda: Holder(v=MapOrMissing(kw={"a": 1}).updated(kw=MISSING).kw)),
            ("int-or-missing/new", lambda: Holder(v=Two().third)),
            ("none-before-missing/new", lambda: Holder(v=Two().fourth)),
            ("none-before-missing/explicit", lambda: Holder(v=Two(fourth=MISSING).fourth)),
            ("none-before-missing/copy", lambda: Holder(v=copy.deepcopy(Two()).fourth)),
            ("none-before-missing/in-sequence", lambda: Holder(v=Two(fifth=["a", None, MISSING]).fifth[2])),
        ):
            steps += 1
            try:
                inst = make()
                got = inst.v
            except Exception as exc:  # noqa: BLE001
                viols.append(viol("obtain", f"after-{name}/{how}-raises", "an instance", f"{type(exc).__name__}: {exc}"[:120]))
                continue
            if got is not MISSING:
                viols.append(viol("singleton", f"after-lookalike/{how}", "the one MISSING object", f"{type(got).__name__}: {got!r}"[:80], earlier=name))
            elif not is_missing(inst.v) or "v" in inst.as_dict():
                viols.append(viol("predicate", f"after-lookalike/{how}", "is_missing and omitted from as_dict", "not"))
        # a state holding MISSING (left operand: Missing.__eq__ decides) never equals a state holding a
        # look-alike; with the look-alike on the left its own __eq__ decides - not checked
        if name != "forged":
            for how, left, right in (
                ("missing==lookalike", lambda: Holder(n=1), lambda: Holder(v=lookalike(name), n=1)),
                ("nested", lambda: Holder(v=(MISSING, 1), n=1), lambda: Holder(v=(lookalike(name), 1), n=1)),
            ):
                steps += 1
                try:
                    a_, b_ = left(), right()
                    eq, ne = (a_ == b_), (a_ != b_)
                except Exception as exc:  # noqa: BLE001
                    viols.append(viol("predicate", f"state-eq-raises/{how}/{name}", "False", f"{type(exc).__name__}: {exc}"[:100]))
                    continue
                if eq is not False or ne is not True:
                    viols.append(viol("predicate", f"state-eq/{how}", "== False, != True", [repr(eq), repr(ne)], lookalike=name))
        return Result(f"after/{name}", True, viols, {"value": name, "first": stored}, steps=steps)
    if fam == "predicates":
        name = program["value"]
        x = lookalike(name)
        same = x is MISSING
        checks = {
            "is_missing": (lambda: is_missing(x), same),
            "not_missing": (lambda: not_missing(x), not same),
            "when_missing-default": (lambda: when_missing(x, "dflt") == "dflt" and (same or when_missing(x, "dflt") is x) if same else when_missing(x, "dflt") is x, True),
            "eq": (lambda: MISSING == x, same),
            "ne": (lambda: MISSING != x, not same),
        }
        obs = {}
        for cname, (fn, want) in checks.items():
            steps += 1
            try:
                got = fn()
            except Exception as exc:  # noqa: BLE001
                got = f"raised {type(exc).__name__}"
            obs[cname] = got if isinstance(got, (bool, str)) else repr(got)
            if got is not want:
                viols.append(viol("predicate", f"{cname}/{name}", want, got))
        if same:
            for cname, fn, want in (
                ("bool", lambda: bool(MISSING), False),
                ("call-is", lambda: Missing() is MISSING, True),
                ("type", lambda: type(MISSING) is Missing, True),
            ):
                steps += 1
                got = fn()
                if got is not want:
                    viols.append(viol("predicate", cname, want, got))
        return Result(f"predicates/{name}", not same, viols, {"value": name, "results": obs}, steps=steps)
    # attributes
    obs = {}
    # (plain names and the protocol probes other libraries make on arbitrary objects: abc, inspect,
    # functools, copy / pickle helpers, numpy-style array protocols, rich / IPython display hooks)
    for attr in ("x", "value", "result", "name", "__wrapped__", "args", "__isabstractmethod__", "__len__", "__iter__", "__call__", "__index__", "__fspath__", "__set_name__", "__get__", "__array__", "__signature__", "__text_signature__", "__rich__", "_repr_html_", "__enter__", "__aenter__", "__await__", "__next__", "__getitem__", "__contains__", "__origin__", "__args__", "__dataclass_fields__", "_fields", "__attrs_attrs__", "a_rather_long_attribute_name_of_more_than_forty_characters"):
        for opname, op in (
            ("get", lambda a=attr: getattr(MISSING, a)),
            ("set", lambda a=attr: setattr(MISSING, a, 1)),
            ("del", lambda a=attr: delattr(MISSING, a)),
        ):
            steps += 1
            try:
                op()
                got = "no error"
            except AttributeError:
                got = "AttributeError"
            except Exception as exc:  # noqa: BLE001
                got = type(exc).__name__
            obs[f"{opname}:{attr}"] = got
            if got != "AttributeError":
                viols.append(viol("attributes", f"{opname}", "AttributeError", got, attribute=attr))
    # no instance storage either: the one process-wide object cannot be given attributes through
    # the back door
    for label, fn in (
        ("vars", lambda: vars(MISSING)),
        ("__dict__", lambda: MISSING.__dict__),
        ("object.__setattr__", lambda: object.__setattr__(MISSING, "flag", 1)),
        ("read-back", lambda: MISSING.flag),
    ):
        steps += 1
        try:
            fn()
            got = "no error"
        except (AttributeError, TypeError):
            got = "rejected"
        except Exception as exc:  # noqa: BLE001
            got = type(exc).__name__
        obs[label] = got
        if got != "rejected":
            viols.append(viol("attributes", f"instance-storage/{label}", "rejected (AttributeError / TypeError)", got))
    return Result("attributes", True, viols, obs, steps=steps)
