"""C19  Context log lines go to the scope's logger tagged with an inherited trace id.

Grammar enumeration: scope trees x per node {own logger, own trace id, name from a set with
formatting characters} x placement {inline, spawned}; at every position one log call per level
and per (message, args, exception) form.  A tree interpreter gives the expected logger, level and
trace id; records are captured on the root logger.
"""

import asyncio
import itertools
import logging

from hv import boot  # noqa: F401
from hv.core import Result, task_failure, viol
from hv.ctxkit import Capture
from hv.vloop import VLoop
from hv.world import Chooser

from haiway import ctx  # noqa: E402

ID = "C19"
TECHNIQUE = "exhaustive enumeration of the scope-tree x logger/trace-id/name x log-call grammar on the real context logging, tree-interpreter oracle over captured log records"
RULE = (
    "scope trees up to N nodes (inline / spawned children) x per node own logger y/n x trace id "
    "{not given, own, empty string} x name in {'a', '', '100%', '%s', '%(x)s', 'a b', '{', '{x}', '{}{0}'}; at every position (outside before, "
    "inside every node before/after its children, outside after) one call per level {debug, "
    "info, warning, error} x (message,args) in 6 forms (incl. an argument whose __str__ raises: never-raises only) x optional exception; non-trivial = the "
    "call is made inside a nested scope, or the name / message needs %-handling"
)
RULE += ' Round 19: own trace ids of 36 and 55 characters on odd nodes.'
RULE += ' Rounds 10-13: LONG names (64-1000 characters); MANY scopes (9-40 (100) nodes as chain, star, sequences of outermost scopes) with unique identifiers and fresh trace ids; concurrent siblings yielding inside their scopes.'
ASSUMPTIONS = [
    "records are captured by a handler on the root logger (loggers propagate); logger identity = record.name",
    "a message whose own format and arguments agree: 'm', 'm %s'%(x,), '%d+%s'%(1,'y'), '%(k)s'%{'k':1}, '100% sure' without arguments",
]
BOUNDS = {"quick": {"N": 2, "names": 9, "plus": "chains of 3 over trace-id options"}, "thorough": {"N": 3, "names_for_3": ["a", "%s"]}}
EXHAUSTIVE = {"quick": True, "thorough": True}
SAMPLE_EVERY = {"quick": 300, "thorough": 1500}

NAMES = ["a", "", "100%", "%s", "%(x)s", "a b", "{", "{x}", "{}{0}"]
FORMS = [
    ("MSG m", ()),
    ("MSG m %s", ("x",)),
    ("MSG %d+%s", (1, "y")),
    ("MSG %(k)s", ({"k": 1},)),
    # a mapping argument whose keys are named like attributes of a log record
    ("MSG %(name)s said %(message)s in %(module)s", ({"name": "bob", "message": "hi", "module": "m", "args": 1, "levelname": "x"},)),
    ("MSG {} {x} {0", ()),  # braces are ordinary characters for %-style logging
    ("MSG {0} %s }", ("x",)),
    ("MSG 100% sure", ()),  # no arguments: logging does not format, '%' stays literal
    ("MSG bad %s", ("<<BADSTR>>",)),  # an argument whose __str__ raises: may be lost, must not raise
    # format and arguments that do not agree (ValueError / TypeError when formatted): the line may
    # be lost, logging must not raise
    ("MSG usage at 95%", ("x",)),
    ("MSG %y", ("x",)),
    ("MSG %(key", ("x",)),
    ("MSG %d", ("x",)),
]
DISAGREE = {"MSG usage at 95%", "MSG %y", "MSG %(key", "MSG %d"}


class _Runaway(BaseException):
    """private: unwinds the program when a log line has grown beyond any reason"""


class BadStr:
    def __str__(self) -> str:
        raise TypeError("cannot render")

    def __repr__(self) -> str:
        return "BadStr()"
LEVELS = [("debug", logging.DEBUG), ("info", logging.INFO), ("warning", logging.WARNING), ("error", logging.ERROR)]

_root = logging.getLogger()
_cap = Capture()
_root.addHandler(_cap)
_root.setLevel(logging.DEBUG)


def _node_opts(names, traces=(0, 1, 2)):
    # trace option: 0 = not given, 1 = own id (containing '%'), 2 = given as the empty string
    return [(lg, tr, nm) for lg in (False, True) for tr in traces for nm in names]


def _own_trace(i: int) -> str:
    """caller-supplied trace ids: a short one with formatting characters (even nodes), a 36-character
    uuid form / a 55-character W3C traceparent form (odd nodes)"""
    if i % 2 == 0:
        return f"trace-n{i}-100%s"
    if i % 4 == 1:
        return f"0af76519-16cd-43dd-8448-eb211c8031{i:02d}"
    return f"00-0af7651916cd43dd8448eb211c80319c-b7ad6b71692033{i:02d}-01"


def programs(tier: str):
    yield {"nodes": []}
    for lg in (False, True):
        for place in ("spawn", "create"):
            yield {"late": True, "mid_logger": lg, "place": place}
    yield {"enter_cancel": True}
    for lg in (False, True):
        for tr in (0, 1):
            # the nested scope is left by a cancellation its parent's code handles: lines logged
            # afterwards belong to the parent scope again
            yield {
                "nodes": [{"opt": [False, 0, "outer"], "parent": None, "place": "root"}, {"opt": [lg, tr, "inner"], "parent": 0, "place": "inline", "ending": "cancel"}],
            }
    for lg in (False, True):
        yield {"nodes": [{"opt": [lg, 0, "a"], "parent": None, "place": "root"}], "level_switch": True}
        for place in ("inline", "spawn"):
            yield {
                "nodes": [{"opt": [lg, 0, "a"], "parent": None, "place": "root"}, {"opt": [False, 0, "b"], "parent": 0, "place": place}],
                "level_switch": True,
            }
    for o in _node_opts(NAMES):
        yield {"nodes": [{"opt": list(o), "parent": None, "place": "root"}]}
    # own loggers given as directly constructed Logger objects (a registered namesake exists too)
    for a in _node_opts(["a"], traces=(0,)):
        for b in _node_opts(["b"], traces=(0,)):
            if not (a[0] or b[0]):
                continue
            for place in ("inline", "spawn"):
                yield {"nodes": [{"opt": list(a), "parent": None, "place": "root"}, {"opt": list(b), "parent": 0, "place": place}], "direct_loggers": True}
    for a in _node_opts(NAMES):
        for b in _node_opts(NAMES):
            for place in ("inline", "spawn"):
                yield {
                    "nodes": [
                        {"opt": list(a), "parent": None, "place": "root"},
                        {"opt": list(b), "parent": 0, "place": place},
                    ]
                }
    # chains of three scopes (own trace id or inherited at every level, inline or spawned): the
    # innermost inherits from its DIRECT parent
    for trs in itertools.product((0, 1), repeat=3):
        for pb, pc in itertools.product(("inline", "spawn"), repeat=2):
            yield {
                "nodes": [
                    {"opt": [False, trs[0], "a"], "parent": None, "place": "root"},
                    {"opt": [False, trs[1], "b"], "parent": 0, "place": pb},
                    {"opt": [False, trs[2], "c"], "parent": 1, "place": pc},
                ]
            }
    # CONCURRENT siblings: 2-3 children spawned by the root within one step, each with a nested
    # inline scope, every node yielding to the loop while its scope is open: a line logged by one
    # sibling while another is suspended inside its nested scope still carries its own tags
    for nkids in (2, 3):
        for tr in (0, 1):
            nodes_ = [{"opt": [False, 0, "root"], "parent": None, "place": "root"}]
            for k_ in range(nkids):
                nodes_.append({"opt": [bool(k_ % 2), tr if k_ == 0 else 0, f"job{k_}"], "parent": 0, "place": "spawn"})
                nodes_.append({"opt": [False, 0, f"step{k_}"], "parent": len(nodes_) - 1, "place": "inline"})
            yield {"nodes": nodes_, "yields": True, "lean": True}
    # LONG names (64, 65, 200, 1000 characters; with spaces / formatting characters) at the root, in
    # a nested scope, in both
    long_names = ["n" * 64, "n" * 65, "long name " * 20, "x" * 1000, "%s" * 40]
    for nm in long_names:
        for lg in (False, True):
            yield {"nodes": [{"opt": [lg, 0, nm], "parent": None, "place": "root"}]}
        for place in ("inline", "spawn"):
            yield {"nodes": [{"opt": [False, 0, "a"], "parent": None, "place": "root"}, {"opt": [False, 1, nm], "parent": 0, "place": place}]}
            yield {"nodes": [{"opt": [False, 1, nm], "parent": None, "place": "root"}, {"opt": [False, 0, nm[::-1]], "parent": 0, "place": place}]}
    # MANY scopes: chains, stars and sequences of outermost scopes with 9 .. 40 (100) nodes: unique
    # identifiers, inherited vs fresh trace ids at scale
    for n in (9, 17, 20, 40) if tier == "quick" else (9, 17, 20, 33, 40, 100):
        yield {"nodes": [{"opt": [False, 0, f"s{i}"], "parent": (i - 1 if i else None), "place": "root" if i == 0 else "inline"} for i in range(n)], "lean": True}
        yield {"nodes": [{"opt": [False, 0, f"s{i}"], "parent": (0 if i else None), "place": "root" if i == 0 else ("inline" if i % 2 else "spawn")} for i in range(n)], "lean": True}
        yield {"nodes": [{"opt": [False, i % 2, f"s{i}"], "parent": None, "place": "root"} for i in range(n)], "many_roots": True, "lean": True}
        # requests: an outermost scope with one nested step each
        yield {"nodes": [{"opt": [False, 0, f"s{i}"], "parent": (None if i % 2 == 0 else i - 1), "place": "root" if i % 2 == 0 else "inline"} for i in range(n)], "many_roots": True, "lean": True}
    if tier == "thorough":
        opts = _node_opts(["a", "%s"], traces=(0, 1))
        for a in opts:
            for b in opts:
                for c in opts:
                    for parent_c in (0, 1):
                        for pb, pc in itertools.product(("inline", "spawn"), repeat=2):
                            yield {
                                "nodes": [
                                    {"opt": list(a), "parent": None, "place": "root"},
                                    {"opt": list(b), "parent": 0, "place": pb},
                                    {"opt": list(c), "parent": parent_c, "place": pc},
                                ]
                            }


def explore_config(tier: str, program) -> dict:
    return {}


class LogErr(Exception):
    pass


def _late(program, ch: Chooser) -> Result:
    """root (async) > mid (sync, optionally with its own logger); a task started inside `mid`
    logs after `mid` - and for plain tasks also `root` - have been left and completed, and opens a
    nested scope of its own there"""
    loop = VLoop()
    loop.open()
    viols: list[dict] = []
    _cap.records.clear()
    _cap.errors.clear()
    try:
        ms: dict = {}
        gate = loop.create_future()
        out: list = []

        def cb(name):
            return lambda m: ms.__setitem__(name, m)

        def log(where: str) -> None:
            n0 = len(_cap.records)
            try:
                ctx.log_info("MSG late %s", where)
                recs = [r for r in _cap.records[n0:] if isinstance(r.msg, str) and "MSG" in r.msg]
                out.append((where, [(r.name, r.getMessage()) for r in recs]))
            except BaseException as exc:  # noqa: BLE001
                out.append((where, f"raised {type(exc).__name__}: {exc}"[:120]))

        async def late():
            await gate
            log("direct")
            async with ctx.scope("nested", completion=cb("nested")):
                log("nested")
            log("after-nested")

        async def main():
            kwargs = {"logger": logging.getLogger("own.mid")} if program["mid_logger"] else {}
            async with ctx.scope("root", completion=cb("root")):
                with ctx.scope("mid", completion=cb("mid"), **kwargs):
                    t = ctx.spawn(late) if program["place"] == "spawn" else loop.create_task(late())
                if program["place"] == "spawn":
                    gate.set_result(None)  # the root's exit waits for the spawned task
            if program["place"] == "create":
                gate.set_result(None)  # everything the task inherited has been left by now
            await t

        task = loop.create_task(main())
        loop.run_ready()
        if task_failure(task) is not None:
            viols.append(viol("never-raises", "late-task/driver", "runs", task_failure(task)[:160]))
        want_logger = "own.mid" if program["mid_logger"] else "root"
        mid = ms.get("mid")
        for where, got in out:
            if isinstance(got, str):
                viols.append(viol("never-raises", f"late-task/{where}/{program['place']}", "no exception", got))
                continue
            if len(got) != 1:
                viols.append(viol("exactly-one-record", f"late-task/{where}", 1, len(got)))
                continue
            name, text = got[0]
            if name != want_logger:
                viols.append(viol("logger", f"late-task/{where}/{'own' if program['mid_logger'] else 'inherited'}", want_logger, name))
            if mid is not None and f"[{mid.trace_id}]" not in text:
                viols.append(viol("trace-id", f"late-task/{where}", "the trace id of the scope the task was started in", text[:80]))
            scope_m = ms.get("nested") if where == "nested" else mid
            if scope_m is not None and f"[{scope_m.identifier}]" not in text:
                viols.append(viol("tagged", f"late-task/identifier/{where}", "identifier of the task's current scope", text[:100]))
        return Result(f"late/{program['place']}/{program['mid_logger']}", True, viols[:5], {"out": [[w_, g if isinstance(g, str) else [x[0] for x in g]] for w_, g in out]}, steps=len(out))
    finally:
        loop.shutdown()


def _enter_cancel(program, ch: Chooser) -> Result:
    """a nested scope whose suspended disposable enter is cancelled (and handled): lines logged
    afterwards are the parent's again, and lines outside any scope go untagged to root"""
    from hv.ctxkit import Disp

    loop = VLoop()
    loop.open()
    viols: list[dict] = []
    _cap.records.clear()
    try:
        ms: dict = {}
        out: list = []

        class Slow(Disp):
            async def __aenter__(self):
                await loop.create_future()

        def log(where: str) -> None:
            n0 = len(_cap.records)
            ctx.log_info("MSG ec %s", where)
            recs = [r for r in _cap.records[n0:] if isinstance(r.msg, str) and "MSG" in r.msg]
            out.append((where, [(r.name, r.getMessage()) for r in recs]))

        async def attempt():
            try:
                loop.call_soon(asyncio.current_task().cancel)
                async with ctx.scope("inner", disposables=[Slow(None)], logger=logging.getLogger("own.inner")):
                    log("never")
            except asyncio.CancelledError:
                asyncio.current_task().uncancel()

        async def main():
            async with ctx.scope("outer", completion=lambda m: ms.__setitem__("outer", m)):
                await attempt()
                log("in-outer")
            await attempt()
            log("outside")

        task = loop.create_task(main())
        loop.run_ready()
        if task_failure(task) is not None:
            viols.append(viol("never-raises", "enter-cancel/driver", "runs", task_failure(task)[:160]))
        for where, got in out:
            if len(got) != 1:
                viols.append(viol("exactly-one-record", f"enter-cancel/{where}", 1, len(got)))
                continue
            name, text = got[0]
            if where == "in-outer" and (name != "outer" or "[outer]" not in text):
                viols.append(viol("logger", "enter-cancel/parent-scope-after-cancelled-enter", "outer / tagged [outer]", [name, text[:80]]))
            if where == "outside" and (name != "root" or text != "MSG ec outside"):
                viols.append(viol("untagged-outside", "enter-cancel/after-cancelled-enter", ["root", "MSG ec outside"], [name, text[:80]]))
            if where == "never":
                viols.append(viol("harness", "body-ran", "enter is cancelled", "body ran"))
        return Result("enter-cancel", True, viols[:5], {"out": [[w_, [x[0] for x in g]] for w_, g in out]}, steps=len(out))
    finally:
        loop.shutdown()


def execute(program, ch: Chooser) -> Result:  # noqa: C901, PLR0915
    if program.get("late"):
        return _late(program, ch)
    if program.get("enter_cancel"):
        return _enter_cancel(program, ch)
    nodes = program["nodes"]
    loop = VLoop()
    loop.open()
    viols: list[dict] = []
    _cap.records.clear()
    _cap.errors.clear()
    calls: list[dict] = []
    metrics_of: dict[int, object] = {}
    steps = [0]

    def expected_logger(i: int | None) -> str:
        if i is None:
            return "root"
        j = i
        while j is not None:
            if nodes[j]["opt"][0]:
                return f"own.n{j}"
            j = nodes[j]["parent"]
        # outermost scope's name
        k = i
        while nodes[k]["parent"] is not None:
            k = nodes[k]["parent"]
        return nodes[k]["opt"][2] or "root"

    def expected_trace(i: int) -> tuple[str, object]:
        if nodes[i]["opt"][1] == 1:
            return ("own", _own_trace(i))
        if nodes[i]["parent"] is not None:
            return ("parent", nodes[i]["parent"])  # whatever id the enclosing scope really has
        return ("fresh", None)

    def log_all(where: int | None, pos: str) -> None:
        lean = program.get("lean")
        for lname, lno in LEVELS:
            for msg, args in FORMS[:2] if lean else FORMS:
                for with_exc in (False,) if lean else (False, True):
                    if with_exc and lname == "info":
                        continue
                    if with_exc and (msg, lname) not in (("MSG m %s", "error"), ("MSG m", "warning"), ("MSG %(k)s", "debug")):
                        continue
                    steps[0] += 1
                    n0 = len(_cap.records)
                    e0 = len(_cap.errors)
                    exc = LogErr("boom") if with_exc else None
                    raised = None
                    if args == ("<<BADSTR>>",):
                        args = (BadStr(),)
                    try:
                        fn = getattr(ctx, f"log_{lname}")
                        if with_exc:
                            fn(msg, *args, exception=exc)
                        else:
                            fn(msg, *args)
                    except BaseException as err:  # noqa: BLE001
                        raised = f"{type(err).__name__}: {err}"[:120]
                    calls.append(
                        {
                            "where": where,
                            "pos": pos,
                            "level": lno,
                            "msg": msg,
                            "args": args,
                            "exc": exc,
                            "records": _cap.records[n0:],
                            "errors": _cap.errors[e0:],
                            "raised": raised,
                        }
                    )
                    # a line that keeps growing from call to call (e.g. a prefix escaped again and
                    # again) would exhaust memory long before the program ends: stop right here
                    if any(isinstance(r.msg, str) and len(r.msg) > 20000 for r in _cap.records[n0:]):
                        runaway.append(f"a log line of {max(len(r.msg) for r in _cap.records[n0:] if isinstance(r.msg, str))} characters at {pos}")
                        raise _Runaway()

    runaway: list = []

    def make_cb(i: int):
        def cb(m):
            metrics_of[i] = m

        return cb

    async def run_node(i: int) -> None:
        lg, tr, name = nodes[i]["opt"]
        kwargs: dict = {"completion": make_cb(i)}
        if lg and program.get("direct_loggers"):
            # a Logger object constructed directly (not the registry's instance for its name, which
            # also exists): records must go through THIS object - a logger-level filter stamps them
            logging.getLogger(f"own.n{i}")  # the registered namesake
            direct = logging.Logger(f"own.n{i}", level=logging.DEBUG)
            direct.addHandler(_cap)

            def stamp(record, _i=i):
                record.via_direct = _i
                return True

            direct.addFilter(stamp)
            kwargs["logger"] = direct
        elif lg:
            kwargs["logger"] = logging.getLogger(f"own.n{i}")
        if tr == 1:
            kwargs["trace_id"] = _own_trace(i)
        elif tr == 2:
            kwargs["trace_id"] = ""
        # the logger's level at scope creation is more restrictive than at log time
        if program.get("level_switch"):
            _root.setLevel(logging.ERROR)
        cm = ctx.scope(name, **kwargs)
        async with cm:
            if program.get("level_switch"):
                _root.setLevel(logging.DEBUG)
            log_all(i, "pre")
            if program.get("yields"):
                # let sibling tasks run while this scope is open (they log meanwhile)
                await asyncio.sleep(0)
                log_all(i, "mid")
            for j, n in enumerate(nodes):
                if n["parent"] == i:
                    if n["place"] == "inline" and n.get("ending") == "cancel":
                        try:
                            await run_node(j)
                        except asyncio.CancelledError:
                            asyncio.current_task().uncancel()
                    elif n["place"] == "inline":
                        await run_node(j)
                    else:
                        ctx.spawn(run_node, j)
            if program.get("yields"):
                await asyncio.sleep(0)
            log_all(i, "post")
            if nodes[i].get("ending") == "cancel":
                asyncio.current_task().cancel()
                await asyncio.sleep(0)

    async def main() -> None:
        log_all(None, "before")
        for r_, n_ in enumerate(nodes):
            if n_["parent"] is None and (r_ == 0 or program.get("many_roots")):
                await run_node(r_)  # several outermost scopes, one after the other
        log_all(None, "after")

    try:
        task = loop.create_task(main())
        loop.run_ready()
        if not task.done():
            raise RuntimeError("C19 driver did not finish")
        if runaway:
            _cap.records.clear()
            calls.clear()
            return Result(
                "runaway",
                True,
                [viol("tagged", "line-grows-without-bound", "a tag of the scope's name / trace id / identifier in front of the message", runaway[0])],
                {"runaway": runaway[0]},
                steps=steps[0],
            )
        if task.cancelled():
            viols.append(viol("never-raises", "driver-cancelled", "runs", "the program ended cancelled although nobody cancelled it"))
        elif task.exception() is not None:
            viols.append(viol("never-raises", "driver-failed", "runs", repr(task.exception())[:200]))
        nested_calls = 0
        percent = 0
        traces_seen: dict[int, set] = {}
        for c in calls:
            i = c["where"]
            if (c["args"] and isinstance(c["args"][0], BadStr)) or c["msg"] in DISAGREE:
                want_text = c["msg"]
            else:
                want_text = c["msg"] % (c["args"][0] if len(c["args"]) == 1 and isinstance(c["args"][0], dict) else c["args"]) if c["args"] else c["msg"]
            name = nodes[i]["opt"][2] if i is not None else None
            tricky = name is not None and ("%" in name or "{" in name)
            witness = f"{'scope' if i is not None else 'outside'}/{'pct-name' if tricky else 'plain-name'}/{'args' if c['args'] else 'noargs'}"
            if i is not None and nodes[i]["parent"] is not None:
                nested_calls += 1
            if tricky or c["args"]:
                percent += 1
            if c["raised"]:
                viols.append(viol("never-raises", witness, "no exception", c["raised"]))
                continue
            if (c["args"] and isinstance(c["args"][0], BadStr)) or c["msg"] in DISAGREE:
                continue  # format and arguments do not agree: only "never raises" applies
            recs = [r for r in c["records"] if isinstance(r.msg, str) and "MSG" in r.msg]
            if len(recs) != 1:
                viols.append(viol("exactly-one-record", witness, 1, len(recs), scope_name=name, msg=c["msg"]))
                continue
            r = recs[0]
            if c["errors"]:
                viols.append(viol("message-not-lost", witness, f"formats to ...{want_text}", c["errors"][:1], scope_name=name))
                continue
            if r.levelno != c["level"]:
                viols.append(viol("level", witness, c["level"], r.levelno))
            if program.get("direct_loggers") and i is not None and expected_logger(i).startswith("own.n"):
                owner_node = int(expected_logger(i)[5:])
                if getattr(r, "via_direct", None) != owner_node:
                    viols.append(viol("logger", f"{witness}/not-the-given-logger-object", f"the Logger object given to scope n{owner_node}", f"another logger named {r.name}"))
            if r.name != expected_logger(i):
                viols.append(viol("logger", f"{witness}/{'nested' if i is not None and nodes[i]['parent'] is not None else 'top'}", expected_logger(i), r.name))
            text = r.getMessage()
            if c["exc"] is not None and (not r.exc_info or r.exc_info[1] is not c["exc"]):
                viols.append(viol("exception-attached", witness, "exc_info of the given exception", repr(r.exc_info)[:80]))
            if i is None:
                if text != want_text:
                    viols.append(viol("untagged-outside", witness, want_text, text))
                continue
            if not text.endswith(want_text):
                viols.append(viol("message-not-lost", witness, f"...{want_text}", text, scope_name=name))
                continue
            m = metrics_of.get(i)
            if m is None:
                viols.append(viol("harness", "no-metrics", "completion fired", i))
                continue
            if f"[{m.identifier}]" not in text:
                viols.append(viol("tagged", f"identifier/{witness}", m.identifier, text))
            if name and f"[{name}]" not in text:
                viols.append(viol("tagged", f"name/{witness}", name, text))
            kind, val = expected_trace(i)
            if kind == "own":
                if m.trace_id != val or f"[{val}]" not in text:
                    viols.append(viol("trace-id", f"own/{witness}", val, [m.trace_id, text]))
            elif f"[{m.trace_id}]" not in text:
                viols.append(viol("trace-id", f"not-in-line/{witness}", m.trace_id, text[:80]))
            elif nodes[i]["opt"][1] == 2 and m.trace_id == "":
                pass  # given as the empty string and used literally: accepted
            elif kind == "parent":
                parent_m = metrics_of.get(val)
                if parent_m is not None and m.trace_id != parent_m.trace_id:
                    viols.append(
                        viol(
                            "trace-id",
                            f"inherited/{'given-empty' if nodes[i]['opt'][1] == 2 else 'not-given'}",
                            f"trace id of the enclosing scope {parent_m.trace_id}",
                            [m.trace_id, text[:80]],
                        )
                    )
        ids = [m.identifier for m in metrics_of.values()]
        if len(set(ids)) != len(ids):
            dup = next(x for x in ids if ids.count(x) > 1)
            viols.append(viol("tagged", "identifier-not-unique", "pairwise distinct", {"scopes": len(ids), "repeated at (0-based)": [k for k, x in enumerate(ids) if x == dup]}))
        # every outermost scope without an own trace id gets a FRESH one
        fresh = [m.trace_id for i, m in metrics_of.items() if nodes[i]["parent"] is None and nodes[i]["opt"][1] == 0]
        if len(set(fresh)) != len(fresh):
            viols.append(viol("trace-id", "fresh-id-repeats", "pairwise distinct ids for outermost scopes", {"outermost scopes": len(fresh), "distinct ids": len(set(fresh))}))
        # an outermost scope without own id gets a fresh (non-empty) one
        for i, m in metrics_of.items():
            if not m.trace_id and nodes[i]["opt"][1] != 2:
                viols.append(viol("trace-id", "empty", "non-empty", m.trace_id))
        outcome = f"n={len(nodes)}/nested={nested_calls > 0}/pct={percent > 0}"
        seen = set()
        uniq = []
        for v in viols:
            if v["signature"] not in seen:
                seen.add(v["signature"])
                uniq.append(v)
        return Result(outcome, nested_calls > 0 or percent > 0, uniq[:8], {"nodes": nodes, "calls": len(calls)}, steps=steps[0])
    finally:
        loop.shutdown()
