"""C12  Cache returns only right-key, unexpired results and retains the LRU `limit`.

Choice tree = the call/advance history; every history of length L (and, through the per-step
checks, every prefix) is executed on a fresh cache and compared with a reference LRU.
"""

import gc
import weakref
from collections import OrderedDict

from hv import boot  # noqa: F401
from hv import vtime
from hv.core import Result, viol
from hv.vloop import VLoop
from hv.world import Chooser

from haiway.helpers.caching import cache  # noqa: E402

ID = "C12"
TECHNIQUE = "explicit-state search over call/clock-advance histories on the real cache (sync, async, method), reference LRU with time stamps"
RULE = (
    "all histories of length L over {call(k) k in (1, 1.0, True) [x receivers r1, r2, r1' == r1 "
    "for methods] [+ keyword form for functions; sub-family: keyword form for methods, falsy receivers] [+ re-entrant call(k) whose body calls the next "
    "key, sync functions], advance clock by 1 or 4} for limit 1..3 x "
    "expiration {None, 2, 5} x {sync fn, async fn, sync method, async method}; non-trivial = the "
    "history contains a hit and (an eviction or an expiry or two ==-equal differently typed keys)"
)
RULE += ' Round 19: 11 unequal arguments whose hashes collide (-1 / -2, 0 / 2**61-1, ...) through the positional, keyword, method and async forms.'
ASSUMPTIONS = [
    "virtual monotonic clock (exact); wrapped function takes no time and never fails",
    "at age == expiration both a cached and a fresh answer are accepted",
    "a receiver that is freed and whose address is reused by a new instance is not explored: "
    "object addresses are not an owned source of nondeterminism (replays would not reproduce)",
    "positional and keyword call forms may or may not share an entry (unspecified)",
]
BOUNDS = {
    "quick": {"L": 5, "L_sync": 5, "L_method": 4, "limits": [1, 2, 3], "note": "+1 for the sync variant without expiration; histories of every length over the lean alphabets by the fixpoint searches"},
    "thorough": {"L": 7, "L_sync": 6, "L_method": 6, "limits": [1, 2, 3], "note": "+1 for the sync variant without expiration"},
}
EXHAUSTIVE = {"quick": True, "thorough": True}
SAMPLE_EVERY = {"quick": 40000, "thorough": 900000}

KEYS = [1, 1.0, True]


class CacheErr(Exception):
    pass


class Produced:
    __slots__ = ("recv", "arg", "n", "t", "__weakref__")

    def __init__(self, recv, arg, n, t) -> None:
        self.recv, self.arg, self.n, self.t = recv, arg, n, t


class Recv:
    """value-equal receivers: r1 == r1' but they are different instances"""

    def __init__(self, name: str, value: int) -> None:
        self.name, self.value = name, value

    def __eq__(self, other) -> bool:
        return isinstance(other, Recv) and other.value == self.value

    def __hash__(self) -> int:
        return hash(("Recv", self.value))


def programs(tier: str):
    for variant in ("sync", "async", "msync", "masync"):
        L = BOUNDS[tier]["L_method" if variant in ("msync", "masync") else ("L_sync" if variant == "sync" else "L")]
        for limit in BOUNDS[tier]["limits"]:
            for expiration in (None, 2, 5):
                # without the two clock operations the alphabet is smaller: one step deeper
                yield {"variant": variant, "limit": limit, "expiration": expiration, "L": L + (1 if expiration is None and variant == "sync" else 0)}
    # methods called in keyword form with ==-equal differently typed values, on receivers whose
    # instances are falsy (empty containers) or not
    for variant in ("msync", "masync"):
        for limit in (1, 2):
            for expiration in (None, 2):
                for falsy in (False, True):
                    yield {"variant": variant, "limit": limit, "expiration": expiration, "L": 4 if tier == "quick" else 6, "kwm": True, "falsy": falsy}
    # the decorator's own defaults (limit 1, no expiration): bare, called without arguments,
    # expiration given alone
    for variant in ("sync", "async"):
        yield {"variant": variant, "limit": 1, "expiration": None, "L": 5, "defaults": "bare"}
        yield {"variant": variant, "limit": 1, "expiration": None, "L": 5, "defaults": "call"}
        yield {"variant": variant, "limit": 1, "expiration": 2, "L": 5, "defaults": "expiration-only"}
    for variant in ("sync", "async"):
        yield {"variant": variant, "limit": 1, "expiration": None, "L": 4, "attrs": True}
        yield {"variant": variant, "limit": 2, "expiration": 2, "L": 4, "attrs": True}
    yield from fix_programs(tier)
    for variant in ("sync", "kw", "method", "async"):
        yield {"collide": variant}
    # the wrapped function FAILS for some arguments: its error reaches the caller, the entries of
    # the other keys stay where they were (history family and fixpoint searches)
    for variant in ("sync", "async", "msync"):
        for limit, expiration in ((1, None), (2, None), (3, None), (2, 2)):
            if variant == "msync" and limit == 3:
                continue
            yield {"variant": variant, "limit": limit, "expiration": expiration, "fix": True, "failing": True, "deadline_s": 1500, "validate": "first" if tier == "quick" else "all"}
    # FINE time scales: expirations far below / off the millisecond grid (1/2048 s, 3/1024 s) and a
    # huge one (2**20 s), clock steps of half / twice the expiration - exact dyadic values
    for variant in ("sync", "async", "msync"):
        for expiration in (1 / 2048, 3 / 1024, 1.0 + 1 / 1024, float(2**20)):
            for limit in (1, 2):
                if variant == "msync" and (limit == 2 or expiration > 1) and tier == "quick":
                    continue
                yield {"variant": variant, "limit": limit, "expiration": expiration, "fix": True, "fine": True, "deadline_s": 1500, "validate": "first"}
    for variant in ("sync", "async"):
        for limit in (1, 3):
            yield {"variant": variant, "limit": limit, "expiration": None, "L": 5 if tier == "quick" else 6, "kwall": True}
        yield {"variant": variant, "limit": 2, "expiration": 2, "L": 4 if tier == "quick" else 5, "kwall": True}
    # long histories: warm-up cycles x exhaustive continuations
    for variant in ("sync", "async", "msync", "masync"):
        for limit, expiration in ((1, 2), (2, 2), (3, 2)) if tier == "quick" else ((1, 2), (2, 2), (3, 2), (4, 2), (2, 5), (2, None), (4, None)):
            if tier == "quick" and variant in ("msync", "masync") and limit == 3:
                continue
            yield {"variant": variant, "limit": limit, "expiration": expiration, "deep": True, "deadline_s": 3000, "reps": [9, 20] if tier == "quick" else [9, 20, 41], "suffix": 3 if tier == "quick" else 4}


def fix_programs(tier: str):
    """explicit-state searches run to a fixpoint: histories of every length"""
    if tier == "quick":
        for variant in ("sync", "async"):
            for limit, expiration in ((1, None), (2, None), (3, None), (1, 2), (2, 2)):
                yield {"variant": variant, "limit": limit, "expiration": expiration, "fix": True, "deadline_s": 1500, "validate": "first"}
        for variant in ("msync", "masync"):
            for limit, expiration in ((1, None), (2, None), (1, 2)):
                yield {"variant": variant, "limit": limit, "expiration": expiration, "fix": True, "deadline_s": 1500, "validate": "first"}
        return
    for variant in ("sync", "async"):
        for limit in (1, 2, 3):
            for expiration in (None, 2, 5):
                yield {"variant": variant, "limit": limit, "expiration": expiration, "fix": True, "deadline_s": 3000, "validate": "all", "kw": limit < 3 and expiration != 5}
    for variant in ("msync", "masync"):
        for limit, expiration in ((1, None), (2, None), (3, None), (1, 2), (2, 2), (1, 5)):
            yield {"variant": variant, "limit": limit, "expiration": expiration, "fix": True, "deadline_s": 3000, "validate": "all", "r2": expiration is None}


def explore_config(tier: str, program) -> dict:
    if program.get("fix") or program.get("deep"):
        return {"split_depth": 0}
    return {"split_depth": 2}


def _ops(program) -> list[tuple]:
    ops: list[tuple] = []
    if program.get("fix") or program.get("deep"):
        # fixpoint search: a lean alphabet (three ==-equal keys or two receivers x two keys, one
        # keyword form, both clock steps) - the state space must close
        if program["variant"] in ("sync", "async"):
            ops = [("call", None, k) for k in KEYS]
            if program.get("kw"):
                ops += [("kw", None, 1)]
        else:
            ops = [("call", r, k) for r in ("r1", "r1p") for k in (1, 1.0)]
            if program.get("r2"):
                ops += [("call", "r2", 1)]
        if program["expiration"] is not None:
            ops += [("adv", 1.0), ("adv", 4.0)] if not program.get("fine") else [("adv", program["expiration"] / 2), ("adv", program["expiration"] * 2)]
        return ops
    if program["variant"] in ("sync", "async") and program.get("kwall"):
        # keyword call form with ==-equal differently typed values next to the positional form
        ops += [("kw", None, k) for k in KEYS] + [("call", None, 1)]
    elif program["variant"] in ("sync", "async"):
        ops += [("call", None, k) for k in KEYS]
        ops += [("kw", None, 1)]
        if program["variant"] == "sync":
            ops += [("rec", None, 1), ("rec", None, 1.0)]  # call(k) whose body calls the next key
    elif program.get("kwm"):
        ops += [("call", "r1", 1), ("kw", "r1", 1), ("kw", "r1", 1.0), ("kw", "r1", True), ("kw", "r1p", 1)]
    else:
        ops += [("call", r, k) for r in ("r1", "r1p", "r2") for k in (1, 1.0)]
    if program["expiration"] is not None:
        ops += [("adv", 1.0), ("adv", 4.0)] if not program.get("fine") else [("adv", program["expiration"] / 2), ("adv", program["expiration"] * 2)]
    return ops


class Run:
    """One cache object with its reference model; `step(op)` applies one operation of the history
    and evaluates the oracle.  Used by the history enumerator (`execute`) and by the fixpoint
    search (`execute_fix`)."""

    def __init__(self, program) -> None:  # noqa: C901, PLR0915
        self.program = program
        variant, limit, expiration = program["variant"], program["limit"], program["expiration"]
        self.variant, self.limit, self.expiration = variant, limit, expiration
        vtime.reset()
        self.ops = _ops(program)
        self.viols: list[dict] = []
        self.produced: list[weakref.ref] = []
        self.counter = {"n": 0}
        self.last: dict = {}
        self.is_async = variant in ("async", "masync")
        self.loop = VLoop() if self.is_async else None
        if self.loop:
            self.loop.open()
        self.nest: dict = {"key": None}
        run = self

        def make(recv, arg):
            if isinstance(arg, str) and arg.startswith("boom"):
                run.bad_calls += 1
                raise CacheErr(arg)  # the wrapped function fails for this argument
            run.counter["n"] += 1
            p = Produced(recv, (type(arg).__name__, arg), run.counter["n"], vtime.now())
            run.produced.append(weakref.ref(p))
            run.last["p"] = p
            return p

        def decorate(f):
            if program.get("attrs"):
                # attributes of the wrapped function named like the cache's internals
                f._limit = 99
                f._cached = None
                f._function = None
            if program.get("defaults") == "bare":
                return cache(f)  # the decorator's defaults: limit 1, no expiration
            if program.get("defaults") == "call":
                return cache()(f)
            if program.get("defaults") == "expiration-only":
                return cache(expiration=expiration)(f)  # limit defaults to 1
            return cache(limit=limit, expiration=expiration)(f)

        self.fn = None
        self.Owner = None
        if variant == "sync":

            @decorate
            def fn(k):
                inner = run.nest["key"]
                if inner is not None:
                    # memoised recursion: the body calls the cached function for another key
                    run.nest["key"] = None
                    run.nested_ok = run.do_call(("call", None, inner), nested=True) and run.nested_ok
                return make(None, k)

            self.fn = fn
        elif variant == "async":

            @decorate
            async def fn(k):
                return make(None, k)

            self.fn = fn
        elif variant == "msync":

            class Owner(Recv):
                @cache(limit=limit, expiration=expiration)
                def fn(self, k):
                    return make(self.name, k)

            self.Owner = Owner
        else:

            class Owner(Recv):  # type: ignore[no-redef]
                @cache(limit=limit, expiration=expiration)
                async def fn(self, k):
                    return make(self.name, k)

            self.Owner = Owner

        self.recvs: dict = {}
        if variant in ("msync", "masync") and program.get("falsy"):
            self.Owner.__len__ = lambda self: 0  # type: ignore[attr-defined]
        if variant in ("msync", "masync"):
            self.recvs = {"r1": self.Owner("r1", 1), "r1p": self.Owner("r1p", 1), "r2": self.Owner("r2", 2)}

        # reference: recency list over keys, last production per key
        self.recency: OrderedDict = OrderedDict()  # key -> None, most recent last
        self.entry: dict = {}  # key -> (n, t_produced)
        self.hist: list = []
        self.seen_vals: set = set()
        self.st = {"hits": 0, "evictions": 0, "expiries": 0, "typed": False, "nested_inv": 0}
        self.nested_ok = True
        self.bad_calls = 0
        # keys in order of use, counting calls whose function FAILED as uses too (whether a failed
        # call "uses" its key is not stated: must-hit is demanded only where both readings agree)
        self.recency_all: OrderedDict = OrderedDict()

    def close(self) -> None:
        if self.loop:
            self.loop.shutdown()

    def invoke(self, op):
        _, r, k = op
        fn, recvs, loop = self.fn, self.recvs, self.loop
        if r is None:
            call = (lambda: fn(k=k)) if op[0] == "kw" else (lambda: fn(k))
        elif op[0] == "kw":
            call = lambda: recvs[r].fn(k=k)  # noqa: E731
        else:
            call = lambda: recvs[r].fn(k)  # noqa: E731
        if not self.is_async:
            return call()
        task = loop.create_task(call())
        loop.run_ready()
        if not task.done():
            raise RuntimeError("cached coroutine did not finish")
        return task.result()

    NEXT = {"int": 1.0, "float": True, "bool": 1}  # by type name: 1 == 1.0 == True as dict keys

    def do_call(self, op, nested: bool = False) -> bool:  # noqa: C901, PLR0911, PLR0912
        limit, expiration = self.limit, self.expiration
        viols, hist, st, counter, last = self.viols, self.hist, self.st, self.counter, self.last
        recency, entry = self.recency, self.entry
        _, r, k = op
        kind = "call" if op[0] == "rec" else op[0]
        rname = self.recvs[r].name if r is not None else None  # changes when the receiver is renewed
        key = (kind, rname, type(k).__name__, k)
        argsig = (rname, (type(k).__name__, k))
        if any(v == k and tv != type(k).__name__ for tv, v in self.seen_vals):
            st["typed"] = True
        self.seen_vals.add((type(k).__name__, k))
        # what the reference knows at the instant of the lookup
        top = [k_ for k_ in list(recency)[-limit:] if k_ in list(self.recency_all)[-limit:]]
        known = entry.get(key)
        before = counter["n"]
        nested_before = st["nested_inv"]
        last.pop("p", None)
        if op[0] == "rec":
            self.nest["key"] = self.NEXT[type(k).__name__]
        got = self.invoke(("call", r, k) if op[0] == "rec" else op)
        self.nest["key"] = None
        invoked = (counter["n"] - before) - (st["nested_inv"] - nested_before)
        if nested:
            st["nested_inv"] += counter["n"] - before
        now = vtime.now()
        fresh = last.pop("p", None)
        self.last_obs = None
        # (1) right key, not older than the expiration
        if not isinstance(got, Produced):
            viols.append(viol("value", "not-produced", "an object made by the function", repr(got)))
            return False
        if (got.recv, got.arg) != argsig:
            viols.append(
                viol(
                    "right-key",
                    "other-receiver" if got.arg == argsig[1] else "other-arguments",
                    f"value produced for {argsig}",
                    f"value produced for {(got.recv, got.arg)}",
                    history=hist,
                )
            )
            return False
        age = now - got.t
        if expiration is not None and age > expiration:
            viols.append(viol("expiry", "stale-served", f"age <= {expiration}", f"age {age}", history=hist))
            return False
        if invoked > 1 or (invoked == 1 and got is not fresh):
            viols.append(viol("value", "invoked-but-other-returned", "the fresh value", f"invocations={invoked}", history=hist))
            return False
        # (2) must hit when among the `limit` most recently used keys and unexpired
        if key in top and known is not None:
            n0, t0 = known
            unexpired = expiration is None or (now - t0) < expiration
            if unexpired and invoked:
                viols.append(
                    viol("must-hit", f"limit={limit}", "answered from the cache", "function invoked again", history=hist)
                )
                return False
            if unexpired and not invoked and got.n != n0:
                viols.append(viol("value", "superseded-served", f"invocation #{n0}", f"#{got.n}", history=hist))
                return False
        self.last_obs = ("hit" if not invoked else "miss", age)
        if not invoked:
            st["hits"] += 1
        else:
            if known is not None and expiration is not None and (now - known[1]) >= expiration:
                st["expiries"] += 1
            elif known is not None:
                st["evictions"] += 1
            entry[key] = (got.n, got.t)
        recency.pop(key, None)
        recency[key] = None
        self.recency_all.pop(key, None)
        self.recency_all[key] = None
        # (3) never more than `limit` entries alive (checked when the outermost call is over)
        got = fresh = None
        if nested:
            return True
        alive = sum(1 for w in self.produced if w() is not None)
        if alive > limit:
            gc.collect()
            alive = sum(1 for w in self.produced if w() is not None)
        if alive > limit:
            viols.append(viol("retention", f"limit={limit}", f"<= {limit} results alive", alive, history=hist))
            return False
        return True

    def step(self, op) -> bool:
        """one operation of the history; False when the oracle stopped the execution"""
        self.hist.append(list(op))
        if op[0] == "adv":
            vtime.advance(op[1])
            self.last_obs = ("adv",)
            return True
        if op[0] == "bad":
            # a call whose wrapped function raises: the error reaches the caller, nothing else changes
            _, r, k = op
            try:
                got = self.invoke(("call", r, k))
                self.viols.append(viol("value", "failure-not-raised", "the function's own error", repr(got)[:60], history=self.hist))
                return False
            except CacheErr:
                pass
            except Exception as exc:  # noqa: BLE001
                self.viols.append(viol("value", f"failure-replaced/{type(exc).__name__}", "the function's own error", repr(exc)[:80], history=self.hist))
                return False
            bkey = ("call", self.recvs[r].name if r is not None else None, "str", k)
            self.recency_all.pop(bkey, None)
            self.recency_all[bkey] = None
            self.last_obs = ("raised",)
            alive = sum(1 for w in self.produced if w() is not None)
            if alive > self.limit:
                gc.collect()
                alive = sum(1 for w in self.produced if w() is not None)
            if alive > self.limit:
                self.viols.append(viol("retention", f"limit={self.limit}", f"<= {self.limit} results alive", alive, history=self.hist))
                return False
            return True
        return bool(self.do_call(op) and self.nested_ok)

    # ---- explicit-state interface (hv.xstate.fixpoint) ----
    def enabled(self):
        return self.ops

    def apply(self, op):
        self.last_obs = None
        self.step(tuple(op))
        return self.last_obs

    def canon(self):
        from hv import xstate

        names = {id(r): n for n, r in self.recvs.items()}
        horizon = (self.expiration or 0) + 1.0 if not self.program.get("fine") else self.expiration * 1.5
        c = xstate.Canon(names, horizon=horizon)
        current = {n for n, _t in self.entry.values()}
        c.current = current  # type: ignore[attr-defined]
        roots = [self.fn] if self.fn is not None else [vars(self.Owner)["fn"]]
        impl = tuple(c(r) for r in roots)
        import haiway.helpers.caching as mod

        e = self.expiration
        ref = (
            tuple(repr(k) for k in self.recency_all),
            tuple(repr(k) for k in self.recency),
            tuple(
                (repr(k), None if e is None else repr(min(vtime.now() - t, (e + 1.0) if not self.program.get("fine") else e * 1.5)))
                for k, (_n, t) in sorted(self.entry.items(), key=repr)
            ),
        )
        alive = tuple(
            sorted(
                ((p.recv, repr(p.arg), c.t(p.t), p.n in current) for p in (w() for w in self.produced) if p is not None),
                key=repr,
            )
        )
        return (impl, xstate.module_state(mod, c), ref, alive)


def _produced_canon(self, c):
    return ("P", self.recv, repr(self.arg), c.t(self.t), self.n in getattr(c, "current", ()))


Produced.__hv_canon__ = _produced_canon  # type: ignore[attr-defined]


def execute_fix(program) -> Result:
    """every history of ANY length over the alphabet: breadth-first search over canonical states
    (implementation object graph + reference model) until no new state appears"""
    from hv import xstate

    r = xstate.fixpoint(
        lambda: Run(program),
        max_states=program.get("max_states", 60000),
        validate_merges=program.get("validate", "all"),
    )
    outcome = f"fix/{program['variant']}/" + ("capped" if r["capped"] else "fixpoint")
    obs = {k: v for k, v in r.items() if k != "violations"}
    return Result(outcome, r["states"] > 3, r["violations"], obs, steps=r["transitions"], capped=r["capped"], xstates=r["states"], xinfo=obs)


def execute_deep(program) -> Result:
    """warm-up cycles repeated n times, then every continuation of <= 3 operations"""
    from hv import xstate

    r = xstate.deep_probe(lambda: Run(program), cycle_len=2, reps=tuple(program.get("reps", (9, 20))), suffix=program.get("suffix", 3))
    obs = {k: v for k, v in r.items() if k != "violations"}
    return Result(f"deep/{program['variant']}", True, r["violations"], obs, steps=r["operations"])


COLLIDING = [-1, -2, 0, 2**61 - 1, 2 * (2**61 - 1), (-1,), (-2,), "", 0.0, 1 << 64, (1 << 64) + (2**61 - 1)]


def _collide(program) -> Result:
    """arguments whose HASHES collide although they are not equal (-1 / -2, 0 / 2**61-1, ...): each
    keeps its own entry; answers are only ever values produced for equal, type-identical arguments"""
    viols: list[dict] = []
    variant = program["collide"]
    calls: list = []

    def body(x):
        calls.append(x)
        return ("value-for", type(x).__name__, repr(x), len(calls))

    loop = None
    if variant == "sync":
        fn = cache(limit=len(COLLIDING))(body)
        invoke = fn
    elif variant == "kw":
        inner = cache(limit=len(COLLIDING))(lambda *, x: body(x))
        invoke = lambda x: inner(x=x)  # noqa: E731
    elif variant == "method":

        class Host:
            @cache(limit=len(COLLIDING))
            def get(self, x):
                return body(x)

        host = Host()
        invoke = host.get
    else:
        loop = VLoop()
        loop.open()

        @cache(limit=len(COLLIDING))
        async def afn(x):
            return body(x)

        def invoke(x):
            t = loop.create_task(afn(x))
            loop.run_ready()
            return t.result()

    try:
        first: dict = {}
        for rnd in range(2):
            for i, x in enumerate(COLLIDING):
                got = invoke(x)
                if got[1] != type(x).__name__ or got[2] != repr(x):
                    viols.append(viol("only-own-values", f"hash-collision/{variant}", ["value-for", type(x).__name__, repr(x)], list(got), argument=repr(x), round=rnd))
                    break
                if rnd == 0:
                    first[i] = got
                elif got != first[i]:
                    viols.append(viol("must-hit", f"hash-collision/{variant}", list(first[i]), list(got), argument=repr(x)))
                    break
            if viols:
                break
    finally:
        if loop is not None:
            loop.shutdown()
    return Result(f"collide/{variant}", True, viols, {"calls": len(calls)}, steps=2 * len(COLLIDING))


def execute(program, ch: Chooser) -> Result:
    if program.get("collide"):
        return _collide(program)
    if program.get("deep"):
        return execute_deep(program)
    if program.get("fix"):
        return execute_fix(program)
    L = program["L"]
    run = Run(program)
    try:
        for _ in range(L):
            op = run.ops[ch.choose(len(run.ops), "op")]
            if not run.step(op):
                break
        st = run.st
        hits, evictions, expiries, typed_collision = st["hits"], st["evictions"], st["expiries"], st["typed"]
        nontrivial = hits > 0 and (evictions > 0 or expiries > 0 or typed_collision)
        outcome = f"{run.variant}/hits={min(hits, 3)}/ev={min(evictions, 2)}/exp={min(expiries, 2)}/tc={typed_collision}"
        return Result(outcome, nontrivial, run.viols, {"history": run.hist, "invocations": run.counter["n"]})
    finally:
        run.close()
