"""C05  State construction accepts exactly conforming values and stores them faithfully.

The input space is a grammar of annotation terms; for every term a State class is declared with
that annotation and constructed with every conforming value and every one-position break of it,
as argument and as class default.  The oracle (hv.annkit.conforms / faithful) is written against
the term, not against haiway's annotation resolver.
"""

import collections.abc as cabc

from hv import boot  # noqa: F401
from hv import annkit as ak
from hv.core import Result, viol
from hv.world import Chooser

from haiway import State  # noqa: E402

ID = "C05"
TECHNIQUE = "exhaustive enumeration of an annotation-term grammar x conforming values x one-position breaks on the real State validation, independent structural conformance oracle (3-valued)"
RULE = (
    "all annotation terms up to the stated depth over 20 leaves and 12 constructors (Sequence, "
    "Set, frozenset, Mapping[str|int,.], tuple[X,Y], tuple[X,...], Union, Optional, plain alias, "
    "parametrised alias, generic Box[X]); per term 2-3 conforming values and every one-position "
    "break (leaf replaced by a foreign atom, element added/dropped, key replaced), passed as "
    "argument and as class default; plus generic hosts (Sequence[T], Mapping[str,T], tuple[T,...] "
    "with T bound to every leaf, also next to parametrised aliases bound explicitly), by-name (string) annotations next to an unrelated same-named class, and a two-parameter generic referenced through type variables; "
    "non-trivial = the term has a constructor (depth >= 2) and at least one accepted and one "
    "rejected value were exercised"
)
RULE += " Rounds 10-13: several different Literal annotations in one term; wide unions of 4-6 (11) alternatives; different annotations that read the same (Literal[1, 2] / Literal['1', '2'], same-named states / enums); re-entrant construction."
ASSUMPTIONS = [
    "three-valued oracle: int for float, bool for int, str for Sequence[str], list for tuple[...], "
    "set for frozenset[...], equal-but-differently-typed Literal values are unspecified and only "
    "checked for 'no crash other than Exception'",
    "faithfulness = identity of leaves, tuple/frozenset/read-only mapping for containers",
]
BOUNDS = {
    "quick": {"depth2": "all leaves", "depth3": ak.SMALL_LEAVES},
    "thorough": {"depth3": "all leaves (unary over depth-2; binary with one small side)", "depth4": ak.SMALL_LEAVES},
}
EXHAUSTIVE = {"quick": True, "thorough": True}
SAMPLE_EVERY = {"quick": 900, "thorough": 30000}


def programs(tier: str):  # noqa: C901
    seen: set[str] = set()

    def emit(t):
        k = repr(t)
        if k not in seen:
            seen.add(k)
            return True
        return False

    yield {"special": "pair-typevars"}
    for when in ("before", "after"):
        yield {"special": "forward-refs", "other_defined": when}
    yield {"special": "nested-missing"}
    yield {"special": "same-repr"}
    yield {"special": "alias-swap-and-self"}
    for leaf in ak.LEAF_NAMES:
        yield {"host": leaf}
    for t in ak.terms(2, ak.LEAF_NAMES):
        if emit(t):
            yield {"term": t}
    for t in ak.terms(3, ak.SMALL_LEAVES):
        if emit(t):
            yield {"term": t}
    # several DIFFERENT Literal annotations in one term (tuple positions, union alternatives,
    # element types of sibling containers): each position keeps its own literal set
    for x, y in (("LiteralA", "LiteralB"), ("LiteralB", "LiteralA"), ("Literal", "Literal2"), ("Literal2", "LiteralA")):
        X, Y_ = [x], [y]
        for t in (
            ["tuple2", X, Y_],
            ["union", X, Y_],
            ["optional", ["union", X, Y_]],
            ["seq", ["union", X, Y_]],
            ["tuple2", ["seq", X], ["seq", Y_]],
            ["map_str", ["union", X, Y_]],
            ["tuple2", X, ["tuple2", Y_, X]],
            ["union", X, ["union", Y_, ["None"]]],
            ["tuple2", ["optional", X], ["optional", Y_]],
            ["tuplev", ["union", X, Y_]],
        ):
            if ak.well_formed(t) and emit(t):
                yield {"term": t}
    # WIDE unions (4, 5, 6 alternatives; several alternatives sharing one container type): every
    # 4-subset of a pool of 11 alternatives in both orders, sliding windows for 5 and 6
    pool = [["seq", ["int"]], ["seq", ["str"]], ["tuple2", ["int"], ["int"]], ["tuple2", ["str"], ["str"]], ["map_str", ["int"]], ["map_str", ["str"]], ["set", ["int"]], ["int"], ["str"], ["None"], ["State"]]

    def union_of(alts):
        t = alts[-1]
        for a in reversed(alts[:-1]):
            t = ["union", a, t]
        return t

    import itertools as _it

    wide = [list(c) for c in _it.combinations(pool, 4)]
    for k in (5, 6) if tier == "quick" else (5, 6, 8, 11):
        for start in range(len(pool)):
            for step in (1, 3):
                wide.append([pool[(start + i * step) % len(pool)] for i in range(k)])
    for alts in wide:
        for order in (alts, list(reversed(alts))):
            t = union_of(order)
            if len({repr(a) for a in order}) == len(order) and emit(t):
                yield {"term": t}
    if tier == "thorough":
        d2 = list(ak.terms(2, ak.LEAF_NAMES))
        small2 = list(ak.terms(2, ak.SMALL_LEAVES))
        for c in ak.UNARY:
            for s in d2:
                t = [c, s]
                if ak.well_formed(t) and emit(t):
                    yield {"term": t}
        for c in ak.BINARY:
            for a in d2:
                for b in small2:
                    for t in ([c, a, b], [c, b, a]):
                        if ak.well_formed(t) and emit(t):
                            yield {"term": t}
        for t in ak.terms(4, ["int", "None"]):
            if ak.depth_of(t) == 4 and emit(t):
                # depth 4 only with unary chains + one binary to keep the count finite
                if sum(1 for _ in _binaries(t)) <= 1:
                    yield {"term": t}


def _binaries(t):
    if t[0] in ak.BINARY:
        yield t
    for s in t[1:]:
        if isinstance(s, list):
            yield from _binaries(s)


def explore_config(tier: str, program) -> dict:
    return {}


_n = [0]


class FwdItem(State):
    """module-level state referred to BY NAME (string annotations) from classes of this module"""

    value: int


def _other_fwd_item() -> type[State]:
    # an unrelated state that happens to carry the same class name, defined elsewhere afterwards
    class FwdItem(State):  # noqa: F811
        name: str

    return FwdItem


def make_class(attrs: dict, defaults: dict | None = None, bases=(State,)):
    _n[0] += 1
    ns = {"__annotations__": dict(attrs), "__module__": __name__}
    ns.update(defaults or {})
    return type(f"S{_n[0]}", bases, ns)


def _check_value(cls, attr, v, t, how, viols, stats, build):  # noqa: PLR0913
    verdict = ak.conforms(v, t)
    stats[verdict] += 1
    try:
        inst = build(v)
        ok = True
    except Exception as exc:  # noqa: BLE001
        ok = False
        err = f"{type(exc).__name__}: {str(exc)[:120]}"
    top = ak.unwrap(t)[0]
    if verdict == ak.Y and not ok:
        viols.append(viol("accepts-conforming", f"{how}/{top}", "construction succeeds", err, value=ak.describe(v), term=t))
    elif verdict == ak.N and ok:
        viols.append(
            viol("rejects-nonconforming", f"{how}/{top}", "construction raises", f"stored {ak.describe(getattr(inst, attr))}", value=ak.describe(v), term=t)
        )
    elif verdict == ak.Y and ok:
        stored = getattr(inst, attr)
        if not ak.faithful(v, stored, t):
            viols.append(viol("faithful", f"{how}/{top}", ak.describe(v), ak.describe(stored), term=t))
        stats["accepted"] += 1
    if verdict == ak.N and not ok:
        stats["rejected"] += 1
    return ok


def _cases(t):
    seen: set[str] = set()
    out = []
    for v in ak.values(t):
        d = ak.describe(v)
        if d not in seen:
            seen.add(d)
            out.append(v)
    conforming = list(out)
    for v in conforming:
        for b in ak.breaks(v, t):
            d = f"{type(b).__name__}:{ak.describe(b)}"
            if d not in seen:
                seen.add(d)
                out.append(b)
    return conforming, out


def execute(program, ch: Chooser) -> Result:  # noqa: C901, PLR0912, PLR0915
    viols: list[dict] = []
    stats = {ak.Y: 0, ak.N: 0, ak.U: 0, "accepted": 0, "rejected": 0}
    steps = 0
    if program.get("special") == "alias-swap-and-self":
        # (a) a two-parameter alias subscripted with the host's type variables in SWAPPED order
        #     (simultaneous, not sequential substitution); (b) typing.Self inside containers
        import typing

        from haiway import State as _State

        _K, _V = typing.TypeVar("K"), typing.TypeVar("V")  # noqa: PLC0132
        Table = typing.TypeAliasType("Table", cabc.Mapping[_K, _V], type_params=(_K, _V))
        Inverted = typing.TypeAliasType("Inverted", Table[_V, _K], type_params=(_K, _V))
        checks: list = []
        try:

            class Index[K, V](_State):
                forward: Table[K, V]
                backward: Table[V, K]

            class Plain(_State):
                inv: Inverted[str, int]  # = Mapping[int, str]

            class Tree(_State):
                value: int
                children: cabc.Sequence[typing.Self] = ()
                by_name: cabc.Mapping[str, typing.Self | None] | None = None
                pair: tuple[typing.Self, int] | None = None

            II = Index[str, int]
            leaf_ = Tree(value=1)
            checks = [
                ("index-own-order", lambda: II(forward={"a": 1}, backward={1: "a"}), True),
                ("index-backward-like-forward", lambda: II(forward={"a": 1}, backward={"a": 1}), False),
                ("index-backward-int-int", lambda: II(forward={"a": 1}, backward={1: 2}), False),
                ("inverted-alias", lambda: Plain(inv={1: "a"}), True),
                ("inverted-alias-unswapped", lambda: Plain(inv={"a": 1}), False),
                ("self-in-sequence", lambda: Tree(value=2, children=[leaf_]), True),
                ("self-in-sequence-int", lambda: Tree(value=2, children=[3]), False),
                ("self-in-sequence-other-state", lambda: Tree(value=2, children=[FwdItem(value=1)]), False),
                ("self-in-mapping", lambda: Tree(value=2, by_name={"a": leaf_, "b": None}), True),
                ("self-in-mapping-str", lambda: Tree(value=2, by_name={"a": "x"}), False),
                ("self-in-tuple", lambda: Tree(value=2, pair=(leaf_, 1)), True),
                ("self-in-tuple-int", lambda: Tree(value=2, pair=(1, 1)), False),
            ]
        except Exception as exc:  # noqa: BLE001
            viols.append(viol("declaration", "alias-swap-and-self", "declares", f"{type(exc).__name__}: {exc}"[:160]))
        for name, make, ok_expected in checks:
            steps += 1
            try:
                make()
                ok = True
            except Exception as exc:  # noqa: BLE001
                ok, err = False, f"{type(exc).__name__}: {str(exc)[:80]}"
            if ok and not ok_expected:
                viols.append(viol("rejects-nonconforming", f"special/{name}", "raises", "accepted"))
            elif not ok and ok_expected:
                viols.append(viol("accepts-conforming", f"special/{name}", "construction succeeds", err))
            stats["accepted" if ok else "rejected"] += 1
        return Result("special/alias-swap-and-self", True, viols, program, steps=max(steps, 1))
    if program.get("special") == "same-repr":
        # DIFFERENT annotations that read the same (Literal[1, 2] / Literal["1", "2"]; containers of
        # two unrelated classes sharing one name; same-named enums), declared one after the other:
        # each class validates against its own annotation.  And RE-ENTRANT construction: a lazy
        # sequence argument that builds instances of the same class while it is being validated.
        import enum as _enum
        from typing import Literal as _Lit

        checks = []
        try:
            def _item(kind):
                class Item(State):  # noqa: D401 - two unrelated states both called Item
                    x: kind

                return Item

            ItemI, ItemS = _item(int), _item(str)

            def _level(values):
                return _enum.Enum("Level", values)

            LevelA, LevelB = _level({"LOW": 1, "HIGH": 2}), _level({"LOW": "l", "HIGH": "h"})

            class P1(State):
                a: _Lit[1, 2]
                items: cabc.Sequence[ItemI] = ()
                level: LevelA | None = None
                by: cabc.Mapping[str, ItemI] | None = None

            class P2(State):
                a: _Lit["1", "2"]
                items: cabc.Sequence[ItemS] = ()
                level: LevelB | None = None
                by: cabc.Mapping[str, ItemS] | None = None

            class Node(State):
                name: str
                size: int
                children: cabc.Sequence["Node"] = ()
                tags: cabc.Sequence[str] = ()

            class Lazy(cabc.Sequence):
                """builds Node instances while the enclosing Node is being validated"""

                def __init__(self, n):
                    self.n = n

                def __len__(self):
                    return self.n

                def __getitem__(self, i):
                    if not 0 <= i < self.n:
                        raise IndexError(i)
                    return Node(name=f"child{i}", size=100 + i, tags=[f"t{i}"])

            def _reentrant():
                root = Node(name="root", size=1, children=Lazy(3), tags=["r"])
                assert (root.name, root.size, tuple(root.tags)) == ("root", 1, ("r",)), f"outer instance holds {(root.name, root.size, root.tags)}"
                assert [c.name for c in root.children] == ["child0", "child1", "child2"]
                upd = root.updated(children=Lazy(2))
                assert (upd.name, upd.size, tuple(upd.tags)) == ("root", 1, ("r",)), f"updated copy holds {(upd.name, upd.size, upd.tags)}"
                return root

            checks = [
                ("literal-int-own", lambda: P1(a=1), True),
                ("literal-int-gets-str", lambda: P1(a="1"), False),
                ("literal-str-own", lambda: P2(a="1"), True),
                ("literal-str-gets-int", lambda: P2(a=1), False),
                ("same-name-state-own-1", lambda: P1(a=1, items=[ItemI(x=1)]), True),
                ("same-name-state-own-2", lambda: P2(a="2", items=[ItemS(x="s")]), True),
                ("same-name-state-foreign-2", lambda: P2(a="2", items=[ItemI(x=1)]), False),
                ("same-name-state-foreign-1", lambda: P1(a=2, items=[ItemS(x="s")]), False),
                ("same-name-enum-own-1", lambda: P1(a=1, level=LevelA.LOW), True),
                ("same-name-enum-own-2", lambda: P2(a="1", level=LevelB.HIGH), True),
                ("same-name-enum-foreign", lambda: P2(a="1", level=LevelA.HIGH), False),
                ("same-name-mapping-own-2", lambda: P2(a="1", by={"k": ItemS(x="s")}), True),
                ("same-name-mapping-foreign-2", lambda: P2(a="1", by={"k": ItemI(x=1)}), False),
                ("re-entrant-construction", _reentrant, True),
            ]
        except Exception as exc:  # noqa: BLE001
            viols.append(viol("declaration", "same-repr", "declares", f"{type(exc).__name__}: {exc}"[:160]))
        for name, make, ok_expected in checks:
            steps += 1
            try:
                make()
                ok = True
            except Exception as exc:  # noqa: BLE001
                ok, err = False, f"{type(exc).__name__}: {str(exc)[:100]}"
            if ok and not ok_expected:
                viols.append(viol("rejects-nonconforming", f"special/{name}", "raises", "accepted"))
            elif not ok and ok_expected:
                viols.append(viol("accepts-conforming" if name != "re-entrant-construction" else "stored-faithfully", f"special/{name}", "construction succeeds with every attribute as supplied", err))
            stats["accepted" if ok else "rejected"] += 1
        return Result("special/same-repr", True, viols, program, steps=max(steps, 1))
    if program.get("special") == "nested-missing":
        # an attribute without default whose annotation admits MISSING only one union / alias /
        # type-variable level down: leaving it out conforms (it then holds MISSING)
        import typing

        from haiway import MISSING, Missing

        MaybeInt = typing.TypeAliasType("MaybeInt", int | Missing)
        _TM = typing.TypeVar("TM")
        MaybeT = typing.TypeAliasType("MaybeT", _TM | Missing, type_params=(_TM,))
        cases = []
        try:
            cases.append(("alias-in-union", make_class({"x": MaybeInt | None})))
            cases.append(("generic-alias-in-union", make_class({"x": MaybeT[int] | None})))
            cases.append(("flat", make_class({"x": int | Missing})))
            cases.append(("plain-alias", make_class({"x": MaybeInt})))

            class BoxM[T](State):
                content: T | None

            cases.append(("type-variable", BoxM[int | Missing]))
        except Exception as exc:  # noqa: BLE001
            viols.append(viol("declaration", "nested-missing", "declares", f"{type(exc).__name__}: {exc}"[:160]))
            return Result("special/nested-missing-decl-fails", True, viols, program, steps=1)
        for name, cls_ in cases:
            attr = "content" if name == "type-variable" else "x"
            for how, kw in (("omitted", {}), ("explicit-MISSING", {attr: MISSING}), ("value", {attr: 3}), ("none", {attr: None})):
                if how == "none" and name in ("flat", "plain-alias"):
                    continue
                steps += 1
                try:
                    inst = cls_(**kw)
                    stored = getattr(inst, attr)
                    want = MISSING if how in ("omitted", "explicit-MISSING") else kw[attr]
                    if stored is not want:
                        viols.append(viol("faithful", f"nested-missing/{name}/{how}", repr(want), repr(stored)))
                    stats["accepted"] += 1
                except Exception as exc:  # noqa: BLE001
                    viols.append(viol("accepts-conforming", f"nested-missing/{name}/{how}", "construction succeeds", f"{type(exc).__name__}: {str(exc)[:100]}"))
            steps += 1
            try:
                cls_(**{attr: "not-an-int"})
                viols.append(viol("rejects-nonconforming", f"nested-missing/{name}", "raises", "accepted a str"))
            except Exception:  # noqa: BLE001
                stats["rejected"] += 1
        return Result("special/nested-missing", True, viols, program, steps=steps)
    if program.get("special") == "forward-refs":
        # annotations given as strings resolve in the namespace of the class' own module,
        # whatever same-named classes were defined elsewhere before
        other = _other_fwd_item() if program["other_defined"] == "before" else None
        try:
            holder = make_class({"item": "FwdItem", "items": "cabc.Sequence[FwdItem]", "maybe": "FwdItem | None"}, {"maybe": None})
        except Exception as exc:  # noqa: BLE001
            viols.append(viol("declaration", "forward-refs", "declares", f"{type(exc).__name__}: {exc}"[:160]))
            return Result("special/fwd-decl-fails", True, viols, program, steps=1)
        if other is None:
            other = _other_fwd_item()
        good = FwdItem(value=1)
        for how, kw, ok_expected in (
            ("own-item", {"item": good, "items": [FwdItem(value=2)]}, True),
            ("own-maybe", {"item": good, "items": [], "maybe": FwdItem(value=3)}, True),
            ("foreign-item", {"item": other(name="x"), "items": []}, False),
            ("foreign-in-items", {"item": good, "items": [other(name="x")]}, False),
            ("foreign-maybe", {"item": good, "items": [], "maybe": other(name="x")}, False),
        ):
            steps += 1
            try:
                inst = holder(**kw)
                ok = True
            except Exception:  # noqa: BLE001
                ok = False
            if ok and not ok_expected:
                viols.append(viol("rejects-nonconforming", f"forward-ref/{how}/same-named-class-defined-{program['other_defined']}", "raises", "accepted an instance of an unrelated same-named state"))
                stats["accepted"] += 1
            elif not ok and ok_expected:
                viols.append(viol("accepts-conforming", f"forward-ref/{how}/same-named-class-defined-{program['other_defined']}", "succeeds", "rejected the module's own state"))
            elif ok and (inst.item is not kw["item"]):
                viols.append(viol("faithful", f"forward-ref/{how}", "same instance", "other"))
            stats["accepted" if ok else "rejected"] += 1
        return Result(f"special/forward-refs/{program['other_defined']}", True, viols, program, steps=steps)
    if "special" in program:
        # two-parameter generic referenced through type variables of the enclosing generic
        try:

            class Pair[T, U](State):
                first: T
                second: U

            class UsesPair[T, U](State):
                p: Pair[T, U]
                z: int = 5

            class Mixed[T](State):  # one parameter forwarded, one bound
                p: Pair[T, int]

            class Single[T](State):
                value: T

            class Shelf[T](State):  # a ONE-parameter generic referenced through the host's variable
                box: Single[T]
                maybe: Single[T] | None = None
                many: cabc.Sequence[Single[T]] = ()

            good = Pair[int, str](first=1, second="a")
            swapped = Pair[str, int](first="a", second=1)
            steps += 2
            try:
                inst = UsesPair[int, str](p=good)
                if inst.p is not good:
                    viols.append(viol("faithful", "arg/pair-typevars", "same instance", "other"))
                stats["accepted"] += 1
            except Exception as exc:  # noqa: BLE001
                viols.append(viol("accepts-conforming", "arg/pair-typevars", "succeeds", f"{type(exc).__name__}: {exc}"[:160]))
            try:
                one = Single[int](value=1)
                sh = Shelf[int](box=one, maybe=Single[int](value=2), many=[Single[int](value=3)])
                if sh.box is not one:
                    viols.append(viol("faithful", "arg/single-typevar", "same instance", "other"))
                stats["accepted"] += 1
            except Exception as exc:  # noqa: BLE001
                viols.append(viol("accepts-conforming", "arg/single-typevar", "Shelf[int](box=Single[int](..)) succeeds", f"{type(exc).__name__}: {exc}"[:160]))
            for bad_kw in ({"box": Single[str](value="a")}, {"box": Single[int](value=1), "maybe": Single[str](value="a")}, {"box": Single[int](value=1), "many": [Single[str](value="a")]}):
                steps += 1
                try:
                    Shelf[int](**bad_kw)
                    viols.append(viol("rejects-nonconforming", "arg/single-typevar", "raises", f"accepted Single[str] for Single[int] in {sorted(bad_kw)}"))
                except Exception:  # noqa: BLE001
                    stats["rejected"] += 1
            try:
                mixed_ok = Pair[str, int](first="a", second=1)
                m = Mixed[str](p=mixed_ok)
                if m.p is not mixed_ok:
                    viols.append(viol("faithful", "arg/pair-mixed", "same instance", "other"))
            except Exception as exc:  # noqa: BLE001
                viols.append(viol("accepts-conforming", "arg/pair-mixed", "Mixed[str](p=Pair[str,int](..)) succeeds", f"{type(exc).__name__}: {exc}"[:160]))
            try:
                Mixed[str](p=Pair[int, int](first=1, second=1))
                viols.append(viol("rejects-nonconforming", "arg/pair-mixed", "raises", "accepted Pair[int,int] for Pair[str,int]"))
            except Exception:  # noqa: BLE001
                stats["rejected"] += 1
            try:
                UsesPair[int, str](p=swapped)
                viols.append(viol("rejects-nonconforming", "arg/pair-typevars", "raises", "accepted Pair[str,int] for Pair[int,str]"))
            except Exception:  # noqa: BLE001
                stats["rejected"] += 1
        except Exception as exc:  # noqa: BLE001
            viols.append(
                viol("declaration", "pair-typevars", "class with attribute Pair[T, U] can be declared", f"{type(exc).__name__}: {exc}"[:160])
            )
        return Result("special/pair", True, viols, {"special": "pair-typevars"}, steps=max(steps, 1))
    if "host" in program:
        leaf = [program["host"]]
        try:

            class Host[T](State):
                a: cabc.Sequence[T]
                b: cabc.Mapping[str, T] | None = None
                c: tuple[T, ...] = ()
                d: ak.QSeq[T] = ()  # parametrised alias applied to the class' own type variable
                e: cabc.Sequence[cabc.Sequence[T]] = ()  # the type variable two container levels deep
                f: cabc.Mapping[str, cabc.Sequence[T]] | None = None

            H = Host[ak.annotation(leaf)]
        except Exception as exc:  # noqa: BLE001
            viols.append(viol("declaration", f"host/{leaf[0]}", "declares", f"{type(exc).__name__}: {exc}"[:160]))
            return Result("host/decl-fails", True, viols, program, steps=1)
        base = ak.values(["seq", leaf])[0]
        for attr, t in (("a", ["seq", leaf]), ("b", ["optional", ["map_str", leaf]]), ("c", ["tuplev", leaf]), ("d", ["seq", leaf]), ("e", ["seq", ["seq", leaf]]), ("f", ["optional", ["map_str", ["seq", leaf]]])):
            _, cases = _cases(t)
            for v in cases:
                if v is ak.MISSING and attr != "a":
                    continue  # MISSING for a defaulted attribute means "not supplied"
                steps += 1
                if attr == "a":
                    _check_value(H, attr, v, t, f"generic-{attr}", viols, stats, lambda v: H(a=v))
                else:
                    _check_value(H, attr, v, t, f"generic-{attr}", viols, stats, lambda v, attr=attr: H(a=base, **{attr: v}))
        # a parametrised alias bound to an explicit argument, declared BEFORE attributes that use
        # the class' own type variable of the same name as the alias' parameter (and after them)
        try:

            class Host2[T](State):
                q: ak.TSeq[int] = ()
                a: cabc.Sequence[T]
                m: cabc.Mapping[str, T] | None = None
                q2: ak.TSeq[str] = ()
                w: ak.QSeq[int] = ()

            H2 = Host2[ak.annotation(leaf)]
        except Exception as exc:  # noqa: BLE001
            viols.append(viol("declaration", f"host2/{leaf[0]}", "declares", f"{type(exc).__name__}: {exc}"[:160]))
            return Result("host/decl-fails", True, viols, program, steps=1)
        for attr, t in (("a", ["seq", leaf]), ("m", ["optional", ["map_str", leaf]]), ("q", ["seq", ["int"]]), ("q2", ["seq", ["str"]]), ("w", ["seq", ["int"]])):
            _, cases = _cases(t)
            for v in cases:
                if v is ak.MISSING and attr != "a":
                    continue
                steps += 1
                if attr == "a":
                    _check_value(H2, attr, v, t, f"generic2-{attr}", viols, stats, lambda v: H2(a=v))
                else:
                    _check_value(H2, attr, v, t, f"generic2-{attr}", viols, stats, lambda v, attr=attr: H2(a=base, **{attr: v}))
        out = f"host/acc={min(stats['accepted'], 1)}/rej={min(stats['rejected'], 1)}"
        return Result(out, stats["accepted"] > 0 and stats["rejected"] > 0, viols[:6], {"host": leaf[0], "stats": stats}, steps=steps)
    t = program["term"]
    try:
        ann = ak.annotation(t)
        cls = make_class({"a": ann, "z": int}, {"z": 5})
    except Exception as exc:  # noqa: BLE001
        viols.append(viol("declaration", ak.unwrap(t)[0], "class can be declared", f"{type(exc).__name__}: {exc}"[:160], term=t))
        return Result("decl-fails", True, viols, {"term": t}, steps=1)
    ak.VALUE_FAILURES.clear()
    conforming, cases = _cases(t)
    if ak.VALUE_FAILURES and all(ak.conforms(v, t[1] if t[0] == "box" else t) == ak.Y for v in ak.values(t[1])[:2] if t[0] == "box"):
        # building Box[X](item=<conforming X value>) failed although X's own program accepts it:
        # the specialisation itself is wrong (e.g. mixed up with another specialisation)
        inner_ok = True
        try:
            inner_cls = make_class({"a": ak.annotation(t[1])}) if t[0] == "box" else None
            if inner_cls is not None:
                for v in ak.values(t[1])[:2]:
                    inner_cls(a=v)
        except Exception:  # noqa: BLE001
            inner_ok = False  # the inner annotation refuses it too: reported by the inner term
        if inner_ok:
            viols.append(viol("accepts-conforming", "generic-specialisation/box", "Box[X](item=conforming X) succeeds", ak.VALUE_FAILURES[:2], term=t))
    for v in cases:
        steps += 1
        ok = _check_value(cls, "a", v, t, "arg", viols, stats, lambda v: cls(a=v))
        if ok is None:
            pass
    # required attribute neither supplied nor defaulted
    steps += 1
    from haiway import MISSING

    _check_value(cls, "a", MISSING, t, "absent", viols, stats, lambda v: cls())
    # as class default: every conforming value and the first three definitely foreign ones
    n_bad = 0
    for v in cases:
        verdict = ak.conforms(v, t)
        if verdict == ak.U or v is MISSING:
            continue
        if verdict == ak.N:
            n_bad += 1
            if n_bad > 3:
                continue
        steps += 1
        try:
            dcls = make_class({"a": ann, "z": int}, {"z": 5, "a": v})
        except Exception as exc:  # noqa: BLE001
            if verdict == ak.Y:
                viols.append(viol("declaration", f"default/{ak.unwrap(t)[0]}", "declares", f"{type(exc).__name__}: {exc}"[:160], term=t))
            continue
        _check_value(dcls, "a", v, t, "default", viols, stats, lambda v, dcls=dcls: dcls())
        # ... and a second construction relying on the same default gives the same verdict
        steps += 1
        _check_value(dcls, "a", v, t, "default-again", viols, stats, lambda v, dcls=dcls: dcls())
    depth = ak.depth_of(t)
    out = f"d{depth}/{ak.unwrap(t)[0]}/acc={min(stats['accepted'], 1)}/rej={min(stats['rejected'], 1)}/unspec={min(stats[ak.U], 1)}"
    nontrivial = depth >= 2 and stats["accepted"] > 0 and stats["rejected"] > 0
    return Result(out, nontrivial, viols[:6], {"term": t, "stats": stats}, steps=steps)
