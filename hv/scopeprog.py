"""Executor for *scope programs*: nested scope / update blocks with disposables, spawned tasks,
body endings and an externally cancellable driver task.  Used by C02, C06, C07, C08 - each brings
its own program enumerator and oracle over the observation log produced here.

Block spec (plain data):
  kind      "ascope" | "sscope" | "updated"
  supply    list of family type names supplied directly                       (default ["A"])
  disp      list of {"enter": E, "exit": E, "yields": "none"|"one"|"two"}     (ascope only)
            E in "ok" | "raise" | "susp_ok" | "susp_raise"
  spawns    list of {"kind": "ret"|"raise"|"raise_base"|"grand"|..., "pauses": k, "via": None|"sscope"|"updated"}
  pause     bool - the body suspends once after spawning (a point where events can land)
  child     nested block or None
  ending    "return" | "raise" | "raise_base"
"""

import asyncio
import logging
import re

from hv import boot, core  # noqa: F401
from hv.ctxkit import FAMILY, Capture, expected_state, make_states, probe_state
from hv.vloop import Livelock
from hv.world import Chooser, World

from haiway import ctx  # noqa: E402


class BodyErr(Exception):
    pass


class BodyBase(BaseException):
    pass


class BodyFalsy(BodyErr):
    """an exception object that is falsy (an aggregate error with zero items)"""

    def __len__(self) -> int:
        return 0


class BodyBadStr(BodyErr):
    """an exception that cannot be rendered (its __str__ raises)"""

    def __str__(self) -> str:
        raise TypeError("cannot render")

    def __repr__(self) -> str:
        return "BodyBadStr()"


class SpawnErr(Exception):
    pass


class SpawnBase(BaseException):
    """a spawned task failing with a BaseException that is not an Exception"""


class DispErr(Exception):
    pass


class DispBase(BaseException):
    pass


_FP = re.compile(r"^\[(?P<trace>[^\]]*)\] (\[(?P<label>[^\]]*)\] )?\[(?P<ident>[^\]]*)\] fp$")

_root = logging.getLogger()
_capture = Capture()
_root.addHandler(_capture)
_root.setLevel(logging.DEBUG)


def disp_arg(doubles, form):
    """the `disposables=` argument in one of its legal forms: a list (default), a tuple, a one-shot
    iterable (generator / iterator), a Disposables object built by the caller"""
    if not doubles:
        return None
    if form == "tuple":
        return tuple(doubles)
    if form == "generator":
        return (d for d in doubles)
    if form == "iterator":
        return iter(list(doubles))
    if form == "object":
        from haiway.context.disposables import Disposables

        return Disposables(*doubles)
    return doubles


def number_blocks(block, counter=None):
    counter = counter if counter is not None else [0]
    if block is None:
        return
    block["id"] = counter[0]
    counter[0] += 1
    number_blocks(block.get("child"), counter)


class DispDouble:
    def __eq__(self, other) -> bool:
        # "twins" compare equal (like two dataclass disposables with the same fields) although
        # they are distinct objects; everything else compares by identity
        if isinstance(other, DispDouble) and self.spec.get("twin") and other.spec.get("twin"):
            return True
        return self is other

    def __hash__(self) -> int:
        return 11 if self.spec.get("twin") else id(self)

    def __init__(self, run: "Run", bid: int, idx: int, spec: dict) -> None:
        self.run, self.bid, self.idx, self.spec = run, bid, idx, spec
        self.name = f"b{bid}.d{idx}"
        self.entered = 0
        self.enter_done = 0
        self.exited = 0
        self.exit_args: list = []
        self.in_enter = False
        self.in_exit = False
        self.yielded: list = []

    async def __aenter__(self):
        r = self.run
        self.entered += 1
        self.in_enter = True
        r.ev("d-enter-start", self.name)
        try:
            mode = self.spec["enter"]
            if self.spec.get("spawn_in_enter"):
                # a disposable that starts a background task of its own while entering (the new
                # scope's task group is already in place): the task belongs to that scope
                r.spawn(self.bid, self.bid, 90 + self.idx, {"kind": self.spec.get("spawn_kind", "ret"), "pauses": 1})
            if mode.startswith("susp"):
                await r.w.pause(f"{self.name}.enter")
            if mode.endswith("raise") or mode.endswith("raise_base"):
                exc = DispErr(f"{self.name}.enter") if mode.endswith("raise") else DispBase(f"{self.name}.enter")
                r.disp_errors.append(exc)
                raise exc
            y = self.spec.get("yields", "none")
            if y == "none":
                out = None
            elif y == "one":
                out = make_states(["A"], f"{self.name}.y")[0]
                self.yielded = [out]
            elif y == "falsy":
                self.yielded = make_states(["F"], f"{self.name}.y")
                out = self.yielded[0]
            elif y == "two":
                self.yielded = make_states(["R", "A2"], f"{self.name}.y")
                out = list(self.yielded)
            elif y == "many":  # one disposable yielding a dozen states of distinct types
                from hv.ctxkit import WIDE

                self.yielded = make_states(list(WIDE), f"{self.name}.y")
                out = list(self.yielded)
            elif y == "gen":  # any Iterable[State] is legal: a generator
                self.yielded = make_states(["R", "A2"], f"{self.name}.y")
                out = (st for st in list(self.yielded))
            else:  # "values": a dict view
                self.yielded = make_states(["R", "A2"], f"{self.name}.y")
                out = {i: st for i, st in enumerate(self.yielded)}.values()
            for s in self.yielded:
                r.supplied[id(s)] = s.tag
            self.enter_done += 1
            r.ev("d-enter-end", self.name, "ok")
            return out
        except asyncio.CancelledError:
            r.ev("d-enter-end", self.name, "cancelled")
            raise
        except (DispErr, DispBase):
            r.ev("d-enter-end", self.name, "raise")
            raise
        finally:
            self.in_enter = False

    async def __aexit__(self, et, ev, tb):
        r = self.run
        self.exited += 1
        self.in_exit = True
        self.exit_args.append((et, ev, tb))
        r.ev("d-exit-start", self.name, et.__name__ if et else None)
        try:
            mode = self.spec["exit"]
            if self.spec.get("signals") and not r.disposed.done():
                r.disposed.set_result(None)  # tasks waiting for this resource to be closed may end
            if mode.startswith("susp"):
                await r.w.pause(f"{self.name}.exit")
            if mode.endswith("raise") or mode.endswith("raise_base"):
                exc = DispErr(f"{self.name}.exit") if mode.endswith("raise") else DispBase(f"{self.name}.exit")
                r.disp_errors.append(exc)
                r.exit_errors.setdefault(self.bid, []).append(exc)
                raise exc
            r.ev("d-exit-end", self.name, "ok")
            # "handled": a disposable whose exit claims to have handled the exception (returns
            # True, like a context manager built with @asynccontextmanager that catches around its
            # yield) - the scope does not let that swallow the body's exception
            return True if self.spec.get("handles") else None
        except asyncio.CancelledError:
            r.ev("d-exit-end", self.name, "cancelled")
            raise
        except (DispErr, DispBase):
            r.ev("d-exit-end", self.name, "raise")
            raise
        finally:
            self.in_exit = False


class Run:
    def __init__(  # noqa: PLR0913
        self,
        program: dict,
        ch: Chooser,
        *,
        probes: bool = False,
        spawn_probe: bool = False,
        cancels: int = 0,
        batch: int = 1,
        fine: bool = False,
    ) -> None:
        self.program = program
        self.w = World(ch, cancel_budget=cancels, batch=batch, fine=fine)
        self.probes = probes
        self.probe_types = tuple(program.get("probe_types", ("A", "R")))
        self.spawn_probe = spawn_probe
        self.events: list = []
        self.supplied: dict[int, str] = {}
        self.keep: list = []
        self.phase: list = ["idle", None]  # ["body"|"exiting"|"exited", block id]
        self.phase_stack: list = []
        self.raised: dict[int, BaseException] = {}
        self.caught: dict[int, BaseException | None] = {}
        self.disp: dict[int, list[DispDouble]] = {}
        self.disp_errors: list = []
        self.exit_errors: dict[int, list] = {}
        self.spawned: dict[int, list[dict]] = {}  # block id (owning async scope) -> task records
        self.fps: dict[tuple[int, str], dict] = {}
        self.probe_owner: dict[str, object] = {}
        self.probe_tasks: dict[str, asyncio.Task] = {}
        self.body_ran: dict[int, bool] = {}
        self.body_state: dict[int, dict] = {}
        self.body_exc: dict[int, BaseException] = {}
        self.at_return: dict[int, list] = {}
        self.exit_started: dict[int, int] = {}
        self.releases_after_exit_start: dict[int, int] = {}
        self.driver: asyncio.Task | None = None
        self.hang = False
        self.n_probe = 0
        self.spawn_errors: list = []
        self.spawn_refused: list = []
        self.prebuilt: dict[int, dict] = {}
        from haiway.utils.queue import AsyncQueue

        self.queue: AsyncQueue = AsyncQueue()
        self.queue_seen: list = []
        self.disposed: asyncio.Future = self.w.loop.create_future()
        self.cancel_phases: list[tuple] = []
        self.cancel_in_cleanup: list[bool] = []
        self.pending_at_cancel: list[list[str]] = []

        def on_cancel(name: str) -> None:
            self.pending_at_cancel.append(
                [s["name"] for s in getattr(self, "all_spawned", []) if s["task"] is not None and not s["task"].done()]
            )
            self.cancel_phases.append(tuple(self.phase))
            # the cleanup of a block is in progress from the first exit call of one of its
            # disposables until the block has handed its outcome back (also between the end of the
            # last exit and the moment the gathered results reach the exiting / rolling-back code)
            self.cancel_in_cleanup.append(
                any((d.in_exit or d.exited > 0) and bid not in self.caught for bid, ds in self.disp.items() for d in ds)
            )

        self.w.on_cancel = on_cancel
        _capture.records.clear()
        _capture.errors.clear()

    # -- helpers ----------------------------------------------------------------------------
    def ev(self, *e) -> None:
        self.events.append(tuple(e))

    def env_for(self, chain: list[dict]) -> list[dict]:
        return chain

    def fingerprint(self, bid: int, when: str, env: list[dict], in_scope: bool, owner_scope) -> None:
        fp: dict = {}
        fp["state"] = {k: list(v) for k, v in probe_state(self.supplied, "d-first", types=self.probe_types).items()}
        # log probe: which metrics scope is current
        n0 = len(_capture.records)
        try:
            ctx.log_info("fp")
            recs = [r for r in _capture.records[n0:] if isinstance(r.msg, str) and r.msg.endswith("fp")]
            if len(recs) != 1:
                fp["log"] = ["records", len(recs)]
            else:
                m = _FP.match(recs[0].msg)
                fp["log"] = [m.group("label"), "scoped"] if m else ["root", recs[0].msg]
                fp["log_ident"] = m.group("ident") if m else None
        except Exception as exc:  # noqa: BLE001
            fp["log"] = ["error", type(exc).__name__]
        # spawn probe: which task group would own a task spawned here
        if self.spawn_probe:
            self.n_probe += 1
            name = f"probe{self.n_probe}"
            fp["probe"] = name
            try:
                coro = self._probe_body(name)
                try:
                    t = ctx.spawn(lambda: coro)
                    fp["spawn"] = "ok"
                    self.probe_tasks[name] = t
                    # who waits for / cancels the probe: recorded when it ends (works for a
                    # probe cancelled before its first step too)
                    t.add_done_callback(lambda _t, name=name: self.probe_owner.setdefault(name, self._where()))
                except BaseException as exc:  # noqa: BLE001
                    coro.close()
                    fp["spawn"] = f"error:{type(exc).__name__}"
                    self.probe_owner[name] = f"error:{type(exc).__name__}"
            except Exception as exc:  # noqa: BLE001
                fp["spawn"] = f"error:{type(exc).__name__}"
            if when == "post":
                pre = self.fps.get((bid, "pre"), {})
                pt = self.probe_tasks.get(pre.get("probe"))
                fp["pre_settled"] = pt is not None and (pt.done() or pt.cancelling() > 0)
        self.fps[(bid, when)] = fp

    async def _probe_body(self, name: str) -> None:
        await self.w.pause(name, low=True)

    def _where(self):
        """In which scope's exit is the driver blocked right now (who waits for / cancels me)."""
        if self.driver is None or self.driver.done():
            return "detached"
        if self.phase[0] == "exiting":
            return f"exit-of-b{self.phase[1]}"
        return f"{self.phase[0]}-of-b{self.phase[1]}"

    # -- the program ------------------------------------------------------------------------
    async def run_block(self, b: dict, env: list[dict], in_scope: bool, owner) -> None:  # noqa: C901, PLR0912, PLR0915
        bid = b["id"]
        kind = b["kind"]
        pre = self.prebuilt.get(bid)
        states = pre["states"] if pre else make_states(b.get("supply", ["A"]), f"b{bid}")
        self.keep.extend(states)
        level = {}
        for s, nm in zip(states, b.get("supply", ["A"])):
            self.supplied[id(s)] = s.tag
            level[nm] = s.tag
        if self.probes:
            self.fingerprint(bid, "pre", env, in_scope, owner)
        doubles = pre["doubles"] if pre else [DispDouble(self, bid, i, spec) for i, spec in enumerate(b.get("disp", []))]
        self.disp[bid] = doubles
        self.body_ran[bid] = False
        caught: BaseException | None = None
        self.phase_stack.append(list(self.phase))
        self.ev("block-start", bid)
        try:
            self.phase[:] = ["entering", bid]
            if kind == "ascope":
                cm = pre["cm"] if pre else ctx.scope(f"b{bid}" + self.program.get("scope_name_suffix", ""), *states, disposables=disp_arg(doubles, b.get("disp_form")))
                async with cm:
                    await self.body(b, [*env, level], bid)
            elif kind == "sscope":
                with (pre["cm"] if pre else ctx.scope(f"b{bid}" + self.program.get("scope_name_suffix", ""), *states)):
                    await self.body(b, [*env, level], owner)
            else:
                with (pre["cm"] if pre else ctx.updated(*states)):
                    await self.body(b, [*env, level], owner)
        except BaseException as exc:  # noqa: BLE001
            caught = exc
        self.phase[:] = self.phase_stack.pop()
        self.caught[bid] = caught
        self.ev("block-end", bid, type(caught).__name__ if caught else None)
        # C06: the instant control is back in the caller of the block
        self.at_return[bid] = [
            {"name": r["name"], "done": r["task"].done()} for r in self.spawned.get(bid, [])
        ]
        if self.probes:
            self.fingerprint(bid, "post", env, in_scope, owner)
        if isinstance(caught, asyncio.CancelledError) and self.w.cancelled_at:
            raise caught  # an external cancellation is never swallowed by the driver

    async def body(self, b: dict, env: list[dict], owner) -> None:  # noqa: C901
        bid = b["id"]
        self.body_ran[bid] = True
        self.phase[:] = ["body", bid]
        self.ev("body", bid)
        try:
            # what the body sees (C08: state yielded by disposables is visible)
            yielded = [s for d in self.disp.get(bid, []) for s in d.yielded]
            types = [type(s) for s in yielded]
            self.body_state[bid] = {
                # a type yielded by two disposables has no defined winner: only unique types count
                "yielded_visible": [
                    (s.tag, self._visible(s)) for s in yielded if types.count(type(s)) == 1
                ],
            }
            for i, sp in enumerate(b.get("spawns", [])):
                self.spawn(bid, owner if b["kind"] != "ascope" else bid, i, sp)
            if b.get("pause"):
                await self.w.pause(f"b{bid}.body")
            if b.get("child"):
                await self.run_block(b["child"], env, True, owner if b["kind"] != "ascope" else bid)
                self.phase[:] = ["body", bid]
            ending = b.get("ending", "return")
            if any(sp_.get("kind") == "queue" for sp_ in b.get("spawns", [])):
                # hand an element to the (suspended) consumer in the very step in which the body ends
                self.queue.enqueue(1)
                if ending == "return":
                    self.queue.finish()
            if ending == "raise":
                self.raised[bid] = BodyErr(f"b{bid}")
                raise self.raised[bid]
            if ending == "raise_base":
                self.raised[bid] = BodyBase(f"b{bid}")
                raise self.raised[bid]
            if ending == "raise_falsy":
                self.raised[bid] = BodyFalsy(f"b{bid}")
                raise self.raised[bid]
            if ending == "raise_badstr":
                self.raised[bid] = BodyBadStr(f"b{bid}")
                raise self.raised[bid]
        except BaseException as exc:
            self.body_exc[bid] = exc
            raise
        finally:
            self.phase[:] = ["exiting", bid]
            self.exit_started[bid] = len(self.w.trace)

    def _visible(self, s) -> bool:
        try:
            return ctx.state(type(s)) is s
        except Exception:  # noqa: BLE001
            return False

    def spawn(self, bid: int, owner, idx: int, sp: dict) -> None:
        name = f"b{bid}.s{idx}"
        rec = {"name": name, "spec": sp, "task": None, "started": False, "end": None, "owner": owner}

        async def child(rec=rec, name=name, sp=sp, depth=0):
            rec["started"] = True
            try:
                if sp["kind"] == "grand" and depth == 0:
                    g = {"name": name + ".g", "spec": {"kind": "ret", "pauses": 1}, "task": None, "started": False, "end": None, "owner": owner}

                    async def grandchild(g=g):
                        g["started"] = True
                        try:
                            await self.w.pause(g["name"] + ".p0")
                            g["end"] = "ret"
                        except asyncio.CancelledError:
                            g["end"] = "cancelled"
                            raise

                    try:
                        g["task"] = ctx.spawn(grandchild)
                        self.spawned.setdefault(owner, []).append(g) if owner is not None else None
                        self.all_spawned.append(g)
                    except BaseException as exc:  # noqa: BLE001
                        self.spawn_errors.append((g["name"], type(exc).__name__))
                if sp["kind"] == "wait_dispose":
                    # a task that only ends once a disposable of its scope has been closed
                    await asyncio.shield(self.disposed)
                if sp["kind"] == "queue":
                    # a consumer of a haiway AsyncQueue: it ends with the queue, or by cancellation
                    # (the element handed over right before the cancellation is not its concern)
                    async for item in self.queue:
                        self.queue_seen.append(item)
                for k in range(sp.get("pauses", 0)):
                    await self.w.pause(f"{name}.p{k}")
                if sp["kind"] in ("raise", "raise_base"):
                    rec["end"] = "raise"
                    rec["end_at"] = len(self.w.trace)
                    rec["end_phase"] = tuple(self.phase)
                    raise SpawnErr(name) if sp["kind"] == "raise" else SpawnBase(name)
                rec["end"] = "ret"
            except asyncio.CancelledError:
                rec["end"] = "cancelled"
                if sp["kind"] == "slow_cancel":
                    # clean-up of the cancelled task needs one more suspension before it ends
                    rec["end"] = "cancelling"
                    await self.w.pause(f"{name}.cleanup")
                    rec["end"] = "cancelled"
                if sp["kind"] == "raise_base_on_cancel":
                    # ... with a BaseException that is not an Exception (a shutdown signal class)
                    rec["end"] = "raise-on-cancel"
                    raise SpawnBase(name + " (while cancelled)") from None
                if sp["kind"] == "raise_on_cancel":
                    # clean-up code of the task fails while it is being cancelled
                    rec["end"] = "raise-on-cancel"
                    raise SpawnErr(name + " (while cancelled)") from None
                if sp["kind"] == "respawn":
                    # cleanup code that tries to spawn follow-up work while the scope is shutting
                    # down: it must be refused (or awaited) - never left running detached
                    h = {"name": name + ".flush", "spec": {"kind": "ret", "pauses": 1}, "task": None, "started": False, "end": None, "owner": owner}

                    async def flush(h=h):
                        h["started"] = True
                        try:
                            await self.w.pause(h["name"] + ".p0")
                            h["end"] = "ret"
                        except asyncio.CancelledError:
                            h["end"] = "cancelled"
                            raise

                    try:
                        h["task"] = ctx.spawn(flush)
                        if owner is not None:
                            self.spawned.setdefault(owner, []).append(h)
                        self.all_spawned.append(h)
                    except BaseException as exc:  # noqa: BLE001
                        self.spawn_refused.append((h["name"], type(exc).__name__))
                raise

        # the callable handed to ctx.spawn: the coroutine function itself, or another legal form -
        # an object with `async def __call__`, a lambda / plain function returning the coroutine,
        # a functools.partial, a haiway wrapper object (timeout) around it
        form = sp.get("callable")
        if form == "object":
            inner_child = child

            class _Callable:
                async def __call__(self):
                    return await inner_child()

            child = _Callable()
        elif form == "lambda":
            inner_child2 = child
            child = lambda: inner_child2()  # noqa: E731
        elif form == "partial":
            import functools

            child = functools.partial(child)
        elif form == "wrapped":
            from haiway.helpers.timeouted import timeout as _timeout

            child = _timeout(10_000.0)(child)
        try:
            via = sp.get("via")
            if via == "sscope":
                with ctx.scope(f"{name}.via"):
                    rec["task"] = ctx.spawn(child)
            elif via == "updated":
                with ctx.updated(*make_states(["A"], f"{name}.via")):
                    rec["task"] = ctx.spawn(child)
            else:
                rec["task"] = ctx.spawn(child)
        except BaseException as exc:  # noqa: BLE001
            self.spawn_errors.append((name, type(exc).__name__))
            return
        if owner is not None:
            self.spawned.setdefault(owner, []).append(rec)
        self.all_spawned.append(rec)

    def library_errors(self) -> list[dict]:
        """exceptions handed to the caller of a block that a line of the library itself raised by
        tripping over its own data (IndexError, TypeError ...) - never an allowed outcome"""
        out = []
        for bid, exc in sorted(self.caught.items()):
            hit = core.raised_in_library(exc)
            if hit:
                out.append(core.viol("unexpected-exception", hit, "the block ends with its body's / its disposables' / a cancellation's exception", f"b{bid}: {core.scrub(repr(exc))[:160]}"))
        return out[:2]

    # -- driving ----------------------------------------------------------------------------
    def execute(self) -> None:
        self.all_spawned: list[dict] = []
        prog = self.program
        root = prog["block"]
        number_blocks(root)

        def prebuild(b, inside: str) -> None:
            """blocks flagged `prepared`: the context-manager object is built ahead of time - at the
            very start of the program, outside everything ("start") or inside the outer scope but
            outside the block's parent ("outer") - and only entered at the block's position"""
            while b is not None:
                if b.get("prepared") == inside:
                    bid = b["id"]
                    states = make_states(b.get("supply", ["A"]), f"b{bid}")
                    doubles = [DispDouble(self, bid, i, spec) for i, spec in enumerate(b.get("disp", []))]
                    if b["kind"] == "ascope":
                        cm = ctx.scope(f"b{bid}", *states, disposables=doubles or None)
                    elif b["kind"] == "sscope":
                        cm = ctx.scope(f"b{bid}", *states)
                    else:
                        cm = ctx.updated(*states)
                    self.prebuilt[bid] = {"cm": cm, "states": states, "doubles": doubles}
                b = b.get("child")

        async def main():
            prebuild(root, "start")
            if prog.get("outer"):
                outer_states = make_states(["A"], "outer")
                self.keep.extend(outer_states)
                self.supplied[id(outer_states[0])] = outer_states[0].tag
                self.phase[:] = ["body", "outer"]
                async with ctx.scope("outer", *outer_states):
                    prebuild(root, "outer")
                    try:
                        await self.run_block(root, [{"A": outer_states[0].tag}], True, "outer")
                    finally:
                        self.phase[:] = ["exiting", "outer"]
                self.phase[:] = ["idle", None]
            else:
                await self.run_block(root, [], False, None)

        self.driver = self.w.task(main(), name="driver", victim=True)
        self.at_driver_done: list | None = None

        def snapshot(_t) -> None:
            self.at_driver_done = [
                {"name": s["name"], "done": s["task"].done() if s["task"] else None, "end": s["end"]}
                for s in self.all_spawned
            ]

        self.driver.add_done_callback(snapshot)
        try:
            self.w.run()
        except Livelock:
            self.hang = True

    def close(self) -> None:
        self.w.close()
