"""Check runner:  python -m hv.run <ID> [--tier quick|thorough] [--jobs N]

exit 0  the property held on everything explored (known findings are printed, not alarmed)
exit 1  + "VIOLATION property=<id> replay=<path>" for every unlisted violation signature
exit 2  HARNESS-ERROR (nondeterminism, harness exception) - a broken check, not a verdict
"""

import argparse
import hashlib
import json
import os
import subprocess
import sys
import tempfile
import time

ROOT = os.path.dirname(os.path.dirname(os.path.abspath(__file__)))
PY = sys.executable


def _env() -> dict:
    env = dict(os.environ)
    env["PYTHONHASHSEED"] = "0"
    env["PYTHONDONTWRITEBYTECODE"] = "1"
    env["PYTHONPATH"] = ROOT + (os.pathsep + env["PYTHONPATH"] if env.get("PYTHONPATH") else "")
    return env


def _meta(prop: str) -> dict:
    code = (
        "import json,importlib;from hv import boot;"
        f"h=importlib.import_module('hv.harness.{prop.lower()}');"
        "print(json.dumps({'rule':h.RULE,'assumptions':h.ASSUMPTIONS,"
        "'bounds':h.BOUNDS,'exhaustive':h.EXHAUSTIVE,'technique':getattr(h,'TECHNIQUE',''),'declared_deviation_bound':getattr(h,'DECLARED_DEVIATION_BOUND',None)}))"
    )
    out = subprocess.run([PY, "-c", code], env=_env(), cwd=ROOT, capture_output=True, text=True)
    if out.returncode != 0:
        print("HARNESS-ERROR: cannot load harness metadata\n" + out.stderr)
        sys.exit(2)
    return json.loads(out.stdout.strip().splitlines()[-1])


def _replay_digest(path: str) -> tuple[int, str]:
    out = subprocess.run(
        [PY, "-m", "hv.replay", path, "--digest"],
        env=_env(),
        cwd=ROOT,
        capture_output=True,
        text=True,
    )
    return out.returncode, out.stdout.strip()


def main() -> int:  # noqa: C901, PLR0912, PLR0915
    ap = argparse.ArgumentParser()
    ap.add_argument("prop")
    ap.add_argument("--tier", default=os.environ.get("VERIF_TIER") or "quick")
    ap.add_argument("--jobs", type=int, default=int(os.environ.get("HV_JOBS", "0") or 0))
    args = ap.parse_args()
    prop = args.prop.upper()
    tier = args.tier if args.tier in ("quick", "thorough") else "quick"
    try:
        seed = int(os.environ.get("VERIF_SEED", "0") or 0)
    except ValueError:
        seed = int(hashlib.sha1(os.environ["VERIF_SEED"].encode()).hexdigest()[:6], 16)
    jobs = args.jobs or min(16, os.cpu_count() or 4)
    t0 = time.time()
    meta = _meta(prop)
    env = _env()
    env["VERIF_SEED"] = str(seed)
    env.setdefault("HV_WATCHDOG", "7200" if tier == "thorough" else "1500")

    tmp = tempfile.mkdtemp(prefix=f"hv-{prop}-")
    procs = []
    for s in range(jobs):
        out = os.path.join(tmp, f"shard{s}.json")
        errf = open(os.path.join(tmp, f"shard{s}.err"), "w+")
        p = subprocess.Popen(
            [PY, "-m", "hv.worker", prop, tier, str(s), str(jobs), out],
            env=env,
            cwd=ROOT,
            stdout=subprocess.DEVNULL,
            stderr=errf,
            text=True,
        )
        procs.append((p, out, errf))
    shards = []
    harness_errors = []
    for p, out, errf in procs:
        p.wait()
        errf.seek(0)
        se = errf.read()
        errf.close()
        d = None
        if os.path.exists(out):
            try:
                with open(out) as fh:
                    d = json.load(fh)
            except ValueError:
                d = None
        if d is not None:
            shards.append(d)
            if d["status"] != "ok":
                harness_errors.append(d["error"])
        else:
            harness_errors.append(f"worker died rc={p.returncode}\n{se[-3000:]}")
    for f in os.listdir(tmp):
        os.unlink(os.path.join(tmp, f))
    os.rmdir(tmp)

    agg = {
        k: sum(d.get(k, 0) for d in shards)
        for k in (
            "programs",
            "executions",
            "states",
            "transitions",
            "nontrivial",
            "capped_programs",
            "bounded_programs",
            "fix_programs",
            "fix_states",
            "fix_transitions",
            "fix_merges_validated",
            "rechecked",
            "violation_count",
        )
    }
    agg["max_depth"] = max((d["max_depth"] for d in shards), default=0)
    agg["max_deviations"] = max((d["max_deviations"] for d in shards), default=0)
    outcomes: dict[str, int] = {}
    for d in shards:
        for k, v in d["outcomes"].items():
            outcomes[k] = outcomes.get(k, 0) + v
    samples = []
    for d in shards[seed % max(1, len(shards)) :] + shards[: seed % max(1, len(shards))]:
        samples.extend(d["samples"][:2])
    samples = samples[:6]
    head = next((d.get("head") for d in shards if d.get("head")), "unknown")

    # best witness per signature
    best: dict[str, dict] = {}
    for d in shards:
        for sig, w in d["violations"].items():
            cur = best.get(sig)
            rank = (w["deviations"], len(w["choices"]), w["program_index"])
            if cur is None or rank < (cur["deviations"], len(cur["choices"]), cur["program_index"]):
                best[sig] = w

    from hv import findings

    known = findings.load(prop)
    lines = []
    unlisted = 0
    listed = 0
    # one directory per run (concurrent runs of the same check must not disturb each other);
    # directories of runs whose process is gone are stale and removed
    prop_dir = os.path.join(ROOT, "replays", prop)
    replay_dir = os.path.join(prop_dir, f"r{os.getpid()}")
    if os.path.isdir(prop_dir):
        for name in os.listdir(prop_dir):
            path = os.path.join(prop_dir, name)
            alive = False
            if name.startswith("r") and name[1:].isdigit():
                try:
                    os.kill(int(name[1:]), 0)
                    alive = True
                except OSError:
                    alive = False
            if not alive:
                if os.path.isdir(path):
                    for f in os.listdir(path):
                        os.unlink(os.path.join(path, f))
                    os.rmdir(path)
                else:
                    os.unlink(path)
    for sig in sorted(best):
        w = best[sig]
        if sig in known:
            listed += 1
            lines.append(f"KNOWN-FINDING: property={prop} signature={sig} {known[sig]}")
            continue
        os.makedirs(replay_dir, exist_ok=True)
        body = {
            "property": prop,
            "harness": f"hv.harness.{prop.lower()}",
            "signature": sig,
            "clause": w["clause"],
            "program": w["program"],
            "choices": w["choices"],
            "expected": w["expected"],
            "observed": w["observed"],
            "detail": {k: v for k, v in w.items() if k not in ("program", "choices")},
            "haiway_head": head,
            "tier": tier,
        }
        h = hashlib.sha1(json.dumps(body, sort_keys=True, default=repr).encode()).hexdigest()[:10]
        safe = "".join(c if c.isalnum() or c in "-_." else "_" for c in sig)[:80]
        path = os.path.join(replay_dir, f"{safe}-{h}.json")
        with open(path, "w") as fh:
            json.dump(body, fh, indent=1, default=repr)
        # a violation is reported only if its replay reproduces identically twice
        r1 = _replay_digest(path)
        r2 = _replay_digest(path)
        if r1 == r2 and r1[0] == 3:
            # deterministic in a fresh process, but violated *differently* than in the exploring
            # process: the library carried state over from earlier executions there.  The fresh
            # process is what a reader can reproduce: record what it shows.
            out = subprocess.run([PY, "-m", "hv.replay", path, "--sigs"], env=_env(), cwd=ROOT, capture_output=True, text=True)
            try:
                fresh = json.loads(out.stdout.strip().splitlines()[-1])
            except (ValueError, IndexError):
                fresh = []
            if fresh:
                body["note"] = (
                    f"the exploring process observed '{sig}' for this execution; a fresh process "
                    "deterministically observes the violation recorded here instead"
                )
                body["signature"], body["clause"] = fresh[0]["signature"], fresh[0]["clause"]
                body["expected"], body["observed"] = fresh[0]["expected"], fresh[0]["observed"]
                os.unlink(path)
                safe = "".join(c if c.isalnum() or c in "-_." else "_" for c in body["signature"])[:80]
                path = os.path.join(replay_dir, f"{safe}-{h}.json")
                with open(path, "w") as fh:
                    json.dump(body, fh, indent=1, default=repr)
                r1 = _replay_digest(path)
                r2 = _replay_digest(path)
                if body["signature"] in known:
                    listed += 1
                    lines.append(f"KNOWN-FINDING: property={prop} signature={body['signature']} {known[body['signature']]}")
                    continue
        if r1 == r2 and r1[0] == 0 and "repeat" not in body:
            # clean in a fresh process although the exploring worker saw the violation: the library
            # carries state from one use to the next (a module-level table, an id()-keyed memo).
            # Replay the same execution several times in ONE fresh process; what that shows -
            # identically, twice - is reproducible for a reader and is reported.
            body["repeat"] = 4
            body["note"] = "violated only when the execution is repeated within one process (the library keeps state between uses)"
            with open(path, "w") as fh:
                json.dump(body, fh, indent=1, default=repr)
            r1 = _replay_digest(path)
            r2 = _replay_digest(path)
            if r1 == r2 and r1[0] == 3:
                out = subprocess.run([PY, "-m", "hv.replay", path, "--sigs"], env=_env(), cwd=ROOT, capture_output=True, text=True)
                try:
                    fresh = json.loads(out.stdout.strip().splitlines()[-1])
                except (ValueError, IndexError):
                    fresh = []
                if fresh:
                    body["signature"], body["clause"] = fresh[0]["signature"], fresh[0]["clause"]
                    body["expected"], body["observed"] = fresh[0]["expected"], fresh[0]["observed"]
                    with open(path, "w") as fh:
                        json.dump(body, fh, indent=1, default=repr)
                    r1 = _replay_digest(path)
                    r2 = _replay_digest(path)
        if r1 != r2 or r1[0] != 1:
            harness_errors.append(
                f"replay of {path} not reproducible: first={r1} second={r2} (nondeterminism)"
            )
            continue
        unlisted += 1
        lines.append(f"VIOLATION property={prop} replay={path}")

    exhaustive = bool(meta["exhaustive"].get(tier)) and agg["capped_programs"] == 0
    if agg["bounded_programs"] and not meta.get("declared_deviation_bound"):
        exhaustive = False  # a deviation bound that the harness does not state in its RULE / BOUNDS
    coverage = {
        "states": agg["states"],
        "transitions": agg["transitions"],
        "traces_validated_against_impl": agg["executions"],
        "evaluations": agg["executions"],
        "distinct_nontrivial": agg["nontrivial"],
        "rule": meta["rule"],
        "samples": samples,
        "exhaustive": exhaustive,
        "programs": agg["programs"],
        "bounds": meta["bounds"].get(tier),
        "max_choice_depth": agg["max_depth"],
        "max_deviations_in_one_execution": agg["max_deviations"],
        "programs_deviation_bounded": agg["bounded_programs"],
        "declared_deviation_bound": (meta.get("declared_deviation_bound") or {}).get(tier),
        "programs_capped": agg["capped_programs"],
        "fixpoint_searches": {
            "programs_run_to_fixpoint": agg["fix_programs"],
            "canonical_states": agg["fix_states"],
            "transitions": agg["fix_transitions"],
            "merges_validated_differentially": agg["fix_merges_validated"],
            "longest_shortest_history": max((d.get("fix_max_depth", 0) for d in shards), default=0),
            "meaning": "explicit-state BFS over operation histories of one long-lived object, states "
            "merged by the canonical form of the implementation's object graph + reference model, "
            "run until no new state appears (covers histories of every length over the alphabet); "
            "every merge re-validated by comparing all one-step continuations",
        },
        "distinct_outcomes": len(outcomes),
        "outcome_histogram": dict(sorted(outcomes.items(), key=lambda kv: -kv[1])[:40]),
        "determinism_rechecks": agg["rechecked"],
        "violation_signatures": sorted(best),
        "known_findings_matched": listed,
        "haiway_head": head,
        "explanation": "every counted execution ran the real haiway code on a hand-stepped "
        "virtual-time asyncio loop (or directly, for pure input/history enumerations); "
        "states = nodes of the explored choice tree (+ observed states after each checked library "
        "operation), transitions = fresh edges (+ those operations)",
        "workers": jobs,
    }
    evidence = {
        "property_id": prop,
        "tier": tier,
        "seed": seed,
        "level": "model_checking",
        "coverage": coverage,
        "assumptions": meta["assumptions"],
        "wall_s": round(time.time() - t0, 2),
        "violations": unlisted,
    }
    if harness_errors and not unlisted:
        for e in harness_errors[:3]:
            print("HARNESS-ERROR:", e)
        return 2
    if harness_errors:
        # a violation that two fresh processes reproduce is real whatever else went wrong (typically
        # the library carries state from one execution to the next inside a worker, which also
        # trips the determinism re-check): report it; the exploration itself was not completed
        for e in harness_errors[:3]:
            print("NOTE (exploration incomplete):", e.splitlines()[-1][:300] if e else e)
        coverage["exhaustive"] = False
        coverage["incomplete_because"] = [e.splitlines()[-1][:300] for e in harness_errors[:3] if e]
    if agg["executions"] == 0 or not samples:
        print("HARNESS-ERROR: nothing explored")
        return 2
    if os.path.realpath(os.environ.get("HV_REPO", "/repo")) == os.path.realpath("/repo"):
        # evidence describes /repo's working tree only; a run against a scratch copy (a seeded
        # change under tools/seedcheck.py) leaves the evidence directory alone
        os.makedirs(os.path.join(ROOT, "evidence"), exist_ok=True)
        with open(os.path.join(ROOT, "evidence", f"{prop}.json"), "w") as fh:
            json.dump(evidence, fh, indent=1, default=repr)
    for line in lines:
        print(line)
    print(
        f"{prop} {tier}: programs={agg['programs']} executions={agg['executions']} "
        f"states={agg['states']} transitions={agg['transitions']} nontrivial={agg['nontrivial']} "
        f"outcomes={len(outcomes)} exhaustive={exhaustive} capped={agg['capped_programs']} "
        f"violations={unlisted} known={listed} wall={evidence['wall_s']}s head={head}"
    )
    return 1 if unlisted else 0


if __name__ == "__main__":
    sys.exit(main())
