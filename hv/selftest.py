"""setup / self-test:  python -m hv.selftest [--fast]

Builds nothing and fetches nothing: verifies the interpreter, the binding to the checked tree,
the virtual clock ordering, and that one execution of every harness replays identically.
"""

import importlib
import os
import pkgutil
import sys


def main() -> int:
    os.environ.setdefault("PYTHONHASHSEED", "0")
    from hv import boot, vtime
    from hv.core import digest
    from hv.world import Chooser

    import time

    assert time.monotonic() == vtime.CLOCK.now, "virtual clock not installed"
    import hv.harness as pkg

    bad = 0
    for m in sorted(pkgutil.iter_modules(pkg.__path__), key=lambda m: m.name):
        if not m.name.startswith("c"):
            continue
        h = importlib.import_module(f"hv.harness.{m.name}")
        prog = next(iter(h.programs("quick")))
        r1 = h.execute(prog, Chooser())
        r2 = h.execute(prog, Chooser())
        same = digest([r1.outcome, r1.obs, r1.violations]) == digest(
            [r2.outcome, r2.obs, r2.violations]
        )
        print(f"selftest {h.ID}: first program replays identically: {same}")
        bad += 0 if same else 1
    print(f"selftest: tree={boot.REPO} head={boot.repo_head()} harness_nondeterminism={bad}")
    return 2 if bad else 0


if __name__ == "__main__":
    sys.exit(main())
