"""Chooser (choice list with prefix replay) and World (controller alternating between running the
virtual loop to quiescence and applying one environment action picked by the chooser)."""

import asyncio
from collections.abc import Callable
from typing import Any

from hv import vtime
from hv.vloop import Livelock, VLoop


class ReplayDivergence(Exception):
    """A replayed prefix met a choice point with a different arity: harness nondeterminism."""


class HarnessError(Exception):
    pass


class Chooser:
    """choose(n) -> prefix[i] while the prefix lasts, 0 afterwards; records choices and arities.
    Points of arity 1 are not recorded."""

    __slots__ = ("prefix", "choices", "arities", "labels")

    def __init__(self, prefix: list[int] | tuple[int, ...] = ()) -> None:
        self.prefix = list(prefix)
        self.choices: list[int] = []
        self.arities: list[int] = []
        self.labels: list[str] = []

    def choose(self, n: int, label: str = "") -> int:
        if n <= 0:
            raise HarnessError("choose() with no alternative")
        if n == 1:
            return 0
        i = len(self.choices)
        if i < len(self.prefix):
            c = self.prefix[i]
            if c >= n:
                raise ReplayDivergence(
                    f"choice point {i} ({label}) has arity {n}, replayed choice {c}"
                )
        else:
            c = 0
        self.choices.append(c)
        self.arities.append(n)
        self.labels.append(label)
        return c

    @property
    def deviations(self) -> int:
        return sum(1 for c in self.choices if c)


class Action:
    __slots__ = ("kind", "key", "apply", "when")

    def __init__(self, kind: str, key: str, apply: Callable[[], None], when: float = 0.0) -> None:
        self.kind = kind
        self.key = key
        self.apply = apply
        self.when = when

    def label(self) -> str:
        return f"{self.kind}:{self.key}"


class _Pause:
    __slots__ = ("tag", "future", "owner", "low", "seq")


class World:
    """One execution = one fresh World."""

    def __init__(
        self,
        chooser: Chooser,
        *,
        cancel_budget: int = 0,
        batch: int = 1,
        max_actions: int = 400,
        fine: bool = False,
    ) -> None:
        vtime.reset()
        self.ch = chooser
        self.loop = VLoop()
        self.loop.open()
        self.cancel_budget = cancel_budget
        self.batch = batch
        self.max_actions = max_actions
        # fine-grained cancellation: while budget remains a cancellation may also be injected
        # between two iterations of the loop (not only at quiescent points)
        self.fine = fine
        self.pauses: list[_Pause] = []
        self.victims: list[tuple[str, asyncio.Task]] = []
        self.cancel_filter: Callable[[str, asyncio.Task], bool] | None = None
        self.extra_actions: Callable[[], list[Action]] | None = None
        self.trace: list[str] = []  # labels of the applied actions
        self.cancelled_at: list[tuple[str, int]] = []  # (victim, index in trace)
        self.last_owner: Any = None
        self.seq = 0
        self.deadlocked = False
        self.livelocked = False
        self.closed = False
        self.timers_enabled = True
        self.on_quiescent: Callable[[], None] | None = None
        self.on_cancel: Callable[[str], None] | None = None

    # -- harness-facing API -----------------------------------------------------------------
    def pause(self, tag: str, low: bool = False) -> asyncio.Future:
        """A suspension point resolved only by the controller."""
        p = _Pause()
        p.tag = tag
        p.future = self.loop.create_future()
        try:
            p.owner = asyncio.current_task(self.loop)
        except RuntimeError:
            p.owner = None
        p.low = low
        self.seq += 1
        p.seq = self.seq
        self.pauses.append(p)
        return p.future

    def task(self, coro, name: str | None = None, victim: bool = False) -> asyncio.Task:
        t = self.loop.create_task(coro, name=name)
        if victim:
            self.victims.append((name or f"t{len(self.victims)}", t))
        return t

    def add_victim(self, name: str, task: asyncio.Task) -> None:
        self.victims.append((name, task))

    # -- controller -------------------------------------------------------------------------
    def _run_ready(self) -> None:
        try:
            if not (self.fine and self.cancel_budget > 0):
                self.loop.run_ready()
                return
            n = 0
            while self.loop._ready:
                self.loop.run_iteration()
                n += 1
                if n > 2000:
                    raise Livelock("more than 2000 loop iterations without quiescence")
                if not self.loop._ready or self.cancel_budget <= 0:
                    continue
                cands = [
                    (name, t)
                    for name, t in self.victims
                    if not t.done() and (self.cancel_filter is None or self.cancel_filter(name, t))
                ]
                if not cands:
                    continue
                c = self.ch.choose(len(cands) + 1, "mid-run")  # 0 = let the loop go on
                if c:
                    name, t = cands[c - 1]
                    self.trace.append(f"cancel-between-iterations:{name}")
                    self._canceller(name, t)()
            if self.cancel_budget <= 0:
                self.loop.run_ready()
        except Livelock:
            self.livelocked = True
            raise

    def enabled(self) -> list[Action]:
        acts: list[Action] = []
        live = [p for p in self.pauses if not p.future.done()]
        self.pauses = live
        normal = [p for p in live if not p.low]
        normal.sort(key=lambda p: (p.owner is not self.last_owner, p.seq))  # seq: creation order (deterministic, see hv.boot)
        for p in normal:
            acts.append(Action("resume", p.tag, self._resumer(p)))
        if self.timers_enabled:
            self.loop.purge_cancelled_timers()
            for i, h in enumerate(self.loop.due_group()):
                acts.append(Action("fire", f"{h._when - vtime.START:g}#{i}", self._firer(h), h._when))
        if self.extra_actions is not None:
            acts.extend(self.extra_actions())
        if not acts:
            # low-priority pauses become enabled only when nothing else (but cancellation) is
            # newest first: a blocked scope exit waits only for tasks spawned after it was entered,
            # which are newer than any other pending low-priority task (exact for correct code)
            for p in sorted((p for p in live if p.low), key=lambda p: -p.seq):
                acts.append(Action("resume-low", p.tag, self._resumer(p)))
                break  # one at a time, deterministic
        cancels: list[Action] = []
        if self.cancel_budget > 0:
            for name, t in self.victims:
                if not t.done() and (self.cancel_filter is None or self.cancel_filter(name, t)):
                    cancels.append(Action("cancel", name, self._canceller(name, t)))
        if cancels and not acts:
            # a cancellation is never forced: choice 0 ends the execution instead
            acts.append(Action("end", "", lambda: None))
        acts.extend(cancels)
        return acts

    def _resumer(self, p: _Pause) -> Callable[[], None]:
        def apply() -> None:
            self.last_owner = p.owner
            if not p.future.done():
                p.future.set_result(None)

        return apply

    def _firer(self, h) -> Callable[[], None]:
        def apply() -> None:
            self.loop.fire(h)

        return apply

    def _canceller(self, name: str, t: asyncio.Task) -> Callable[[], None]:
        def apply() -> None:
            self.cancel_budget -= 1
            self.cancelled_at.append((name, len(self.trace)))
            if self.on_cancel is not None:
                self.on_cancel(name)
            t.cancel()

        return apply

    def step(self) -> bool:
        """Run to quiescence, then apply one (or, with batching, up to `batch`) actions.
        Returns False when nothing is enabled."""
        self._run_ready()
        if self.on_quiescent is not None:
            self.on_quiescent()
        acts = self.enabled()
        if not acts:
            return False
        if len(self.trace) >= self.max_actions:
            self.livelocked = True
            raise Livelock(f"more than {self.max_actions} environment actions")
        i = self.ch.choose(len(acts), "act")
        a = acts[i]
        if a.kind == "end":
            return False
        self.trace.append(a.label())
        a.apply()
        for _ in range(self.batch - 1):
            # a second event landing in the same loop iteration: only events that can happen at
            # this very instant (timers already due, external resumes / cancellations)
            # (low-priority pauses are observation probes: released only when nothing else can
            # happen, never as part of a batch)
            more = [
                b
                for b in self.enabled()
                if b.kind not in ("resume-low", "end") and (b.kind != "fire" or b.when <= vtime.CLOCK.now)
            ]
            if not more:
                break
            # choice 0 = run the loop now
            j = self.ch.choose(len(more) + 1, "batch")
            if j == 0:
                break
            b = more[j - 1]
            self.trace.append("+" + b.label())
            b.apply()
        return True

    def run(self, until: Callable[[], bool] | None = None) -> None:
        """Drive until no action is enabled (or `until()` holds at a quiescent point)."""
        while True:
            if not self.step():
                break
            if until is not None:
                self._run_ready()
                if until():
                    break
        self._run_ready()

    def settle(self) -> None:
        self._run_ready()

    def close(self) -> None:
        if not self.closed:
            self.closed = True
            self.loop.shutdown()
